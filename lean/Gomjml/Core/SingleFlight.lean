namespace Gomjml.SingleFlight
/-! Prototype for C15: `singleflightDo` as a transition system; safety for every interleaving. -/

abbrev Tid := Nat
abbrev Key := Nat
abbrev Res := Nat

inductive PC
  | start                 -- before `sfMutex.Lock()`
  | locked                -- holds the mutex, about to look up `sfCalls[hash]`
  | waiting (c : Tid)     -- found call `c` (identified by its leader), mutex released, about to `c.wg.Wait()`
  | lead                  -- registered own call, mutex released, about to run `fn`
  | parsing               -- inside `fn`
  | assigned              -- `c.res, c.err = fn()` done; deferred func not yet started
  | signalled             -- `c.wg.Done()` done, about to re-lock
  | deleting              -- holds the mutex, about to `delete(sfCalls, hash)` and unlock
  | ret (r : Option Res) (fromLeader : Option Tid)   -- returned `r`; `fromLeader` = whose call it waited on
deriving DecidableEq, Repr

structure St where
  pc : Tid → PC
  key : Tid → Key                 -- the hash each thread asks for (constant)
  mutex : Option Tid
  calls : Key → Option Tid        -- sfCalls: key ↦ leader of the in-flight call
  done : Tid → Bool               -- wg of the call led by t has been released
  res : Tid → Option Res          -- c.res of the call led by t
  parse : Tid → Res               -- what `fn` computes for thread t (arbitrary)

def upd {β} (f : Nat → β) (a : Nat) (b : β) : Nat → β := fun x => if x = a then b else f x
@[simp] theorem upd_same {β} (f : Nat → β) a b : upd f a b a = b := by simp [upd]
@[simp] theorem upd_other {β} (f : Nat → β) a b x (h : x ≠ a) : upd f a b x = f x := by simp [upd, h]

/-- one atomic step of thread `t`; `none` = not enabled (blocked or finished) -/
def step (s : St) (t : Tid) : Option St :=
  match s.pc t with
  | .start => if s.mutex = none then some { s with mutex := some t, pc := upd s.pc t .locked } else none
  | .locked =>
    match s.calls (s.key t) with
    | some c => some { s with mutex := none, pc := upd s.pc t (.waiting c) }
    | none => some { s with mutex := none, calls := upd s.calls (s.key t) (some t), pc := upd s.pc t .lead }
  | .waiting c => if s.done c then some { s with pc := upd s.pc t (.ret (s.res c) (some c)) } else none
  | .lead => some { s with pc := upd s.pc t .parsing }
  | .parsing => some { s with res := upd s.res t (some (s.parse t)), pc := upd s.pc t .assigned }
  | .assigned => some { s with done := upd s.done t true, pc := upd s.pc t .signalled }
  | .signalled => if s.mutex = none then some { s with mutex := some t, pc := upd s.pc t .deleting } else none
  | .deleting => some { s with mutex := none, calls := upd s.calls (s.key t) none, pc := upd s.pc t (.ret (s.res t) none) }
  | .ret _ _ => none

def PC.isLeader : PC → Bool
  | .lead | .parsing | .assigned | .signalled | .deleting => true
  | _ => false

def PC.holds : PC → Bool
  | .locked | .deleting => true
  | _ => false

structure SFInv (s : St) : Prop where
  mutex_iff : ∀ t, s.mutex = some t ↔ (s.pc t).holds = true
  calls_leader : ∀ k t, s.calls k = some t ↔ ((s.pc t).isLeader = true ∧ s.key t = k)
  done_res : ∀ t, s.done t = true → s.res t = some (s.parse t)
  done_pc : ∀ t, s.done t = true → (s.pc t = .signalled ∨ s.pc t = .deleting ∨ ∃ r, s.pc t = .ret r none)
  res_pc : ∀ t, (s.pc t = .assigned ∨ s.pc t = .signalled ∨ s.pc t = .deleting) → s.res t = some (s.parse t)
  wait_key : ∀ t c, s.pc t = .waiting c → s.key c = s.key t ∧ c ≠ t
  ret_wait : ∀ t r c, s.pc t = .ret r (some c) → r = some (s.parse c) ∧ s.key c = s.key t
  ret_lead : ∀ t r, s.pc t = .ret r none → r = some (s.parse t)

def init (key : Tid → Key) (parse : Tid → Res) : St :=
  { pc := fun _ => .start, key := key, mutex := none, calls := fun _ => none,
    done := fun _ => false, res := fun _ => none, parse := parse }

theorem inv_init (key parse) : SFInv (init key parse) := by
  constructor <;> simp [init, PC.holds, PC.isLeader]

/-- **Mutual exclusion of parses per key**: a consequence of the invariant. -/
theorem no_overlap (s : St) (h : SFInv s) (t u : Tid) (hk : s.key t = s.key u)
    (ht : s.pc t = .parsing) (hu : s.pc u = .parsing) : t = u := by
  have h1 := (h.calls_leader (s.key t) t).2 ⟨by simp [ht, PC.isLeader], rfl⟩
  have h2 := (h.calls_leader (s.key t) u).2 ⟨by simp [hu, PC.isLeader], hk.symm⟩
  rw [h1] at h2; exact Option.some.inj h2

/-- **Hand-over**: whoever returns, returns the result of a parse of its own key. -/
theorem handover (s : St) (h : SFInv s) (t : Tid) (r : Option Res) (w : Option Tid) (ht : s.pc t = .ret r w) :
    ∃ c, s.key c = s.key t ∧ r = some (s.parse c) := by
  cases w with
  | none => exact ⟨t, rfl, h.ret_lead t r ht⟩
  | some c => exact ⟨c, (h.ret_wait t r c ht).2, (h.ret_wait t r c ht).1⟩

section preservation
variable {s s' : St} {t : Tid}

theorem upd_apply {β} (f : Nat → β) (a : Nat) (b : β) (x : Nat) : upd f a b x = if x = a then b else f x := rfl

/-- the invariant is inductive: every enabled step of every thread preserves it -/
theorem inv_step (h : SFInv s) (hs : step s t = some s') : SFInv s' := by
  unfold step at hs
  have hm := h.mutex_iff
  have hc := h.calls_leader
  split at hs
  -- start: acquire the mutex
  · rename_i hpc
    split at hs
    · rename_i hfree
      simp at hs; subst hs
      constructor
      · intro u; by_cases hu : u = t
        · subst hu; simp [PC.holds]
        · have := hm u; simp [hfree] at this; simp [upd_apply, hu, this, Ne.symm hu]
      · intro k u; by_cases hu : u = t
        · subst hu; have := hc k u; simp [hpc, PC.isLeader] at this; simp [PC.isLeader, this]
        · simp [upd_apply, hu, hc k u]
      · exact h.done_res
      · intro u hd; by_cases hu : u = t
        · subst hu; have := h.done_pc u hd; simp [hpc] at this
        · simpa [upd_apply, hu] using h.done_pc u hd
      · intro u; by_cases hu : u = t
        · subst hu; simp
        · simpa [upd_apply, hu] using h.res_pc u
      · intro u c; by_cases hu : u = t
        · subst hu; simp
        · simpa [upd_apply, hu] using h.wait_key u c
      · intro u r c; by_cases hu : u = t
        · subst hu; simp
        · simpa [upd_apply, hu] using h.ret_wait u r c
      · intro u r; by_cases hu : u = t
        · subst hu; simp
        · simpa [upd_apply, hu] using h.ret_lead u r
    · simp at hs
  -- locked: look up the map under the mutex
  · rename_i hpc
    have hnl : (s.pc t).isLeader = false := by simp [hpc, PC.isLeader]
    split at hs
    · -- found an in-flight call led by `c`
      rename_i c hfound
      have hcl := (hc (s.key t) c).1 hfound
      have hct : c ≠ t := by intro e; subst e; simp [hnl] at hcl
      simp at hs; subst hs
      constructor
      · intro u; by_cases hu : u = t
        · subst hu; simp [PC.holds]
        · have h1 := hm u; have h2 := hm t
          simp [hpc, PC.holds] at h2
          simp [upd_apply, hu]
          cases hh : (s.pc u).holds
          · rfl
          · have := h1.2 hh; rw [h2] at this; exact absurd (Option.some.inj this).symm hu
      · intro k u; by_cases hu : u = t
        · subst hu; have := hc k u; simp [hnl] at this; simp [PC.isLeader, this]
        · simp [upd_apply, hu, hc k u]
      · exact h.done_res
      · intro u hd; by_cases hu : u = t
        · subst hu; have := h.done_pc u hd; simp [hpc] at this
        · simpa [upd_apply, hu] using h.done_pc u hd
      · intro u; by_cases hu : u = t
        · subst hu; simp
        · simpa [upd_apply, hu] using h.res_pc u
      · intro u c'; by_cases hu : u = t
        · subst hu; simp; intro e; subst e; exact ⟨hcl.2, hct⟩
        · simpa [upd_apply, hu] using h.wait_key u c'
      · intro u r c'; by_cases hu : u = t
        · subst hu; simp
        · simpa [upd_apply, hu] using h.ret_wait u r c'
      · intro u r; by_cases hu : u = t
        · subst hu; simp
        · simpa [upd_apply, hu] using h.ret_lead u r
    · -- nothing in flight: register own call and become the leader
      rename_i hnone
      simp at hs; subst hs
      constructor
      · intro u; by_cases hu : u = t
        · subst hu; simp [PC.holds]
        · have h1 := hm u; have h2 := hm t
          simp [hpc, PC.holds] at h2
          simp [upd_apply, hu]
          cases hh : (s.pc u).holds
          · rfl
          · have := h1.2 hh; rw [h2] at this; exact absurd (Option.some.inj this).symm hu
      · intro k u; by_cases hu : u = t
        · subst hu
          by_cases hk : k = s.key u
          · subst hk; simp [PC.isLeader]
          · have := hc k u; simp [hnl] at this
            simp [upd_apply, hk, PC.isLeader, this]; exact fun e => hk e.symm
        · by_cases hk : k = s.key t
          · subst hk
            have := hc (s.key t) u
            rw [hnone] at this; simp at this
            simp [upd_apply, hu]
            constructor
            · intro e; exact absurd e.symm hu
            · intro ⟨hl, hk⟩; exact absurd hk (this hl)
          · simp [upd_apply, hu, hk, hc k u]
      · exact h.done_res
      · intro u hd; by_cases hu : u = t
        · subst hu; have := h.done_pc u hd; simp [hpc] at this
        · simpa [upd_apply, hu] using h.done_pc u hd
      · intro u; by_cases hu : u = t
        · subst hu; simp
        · simpa [upd_apply, hu] using h.res_pc u
      · intro u c'; by_cases hu : u = t
        · subst hu; simp
        · simpa [upd_apply, hu] using h.wait_key u c'
      · intro u r c'; by_cases hu : u = t
        · subst hu; simp
        · simpa [upd_apply, hu] using h.ret_wait u r c'
      · intro u r; by_cases hu : u = t
        · subst hu; simp
        · simpa [upd_apply, hu] using h.ret_lead u r
  -- waiting c: enabled once the leader has signalled; read its result
  · rename_i c hpc
    split at hs
    · rename_i hdone
      simp at hs; subst hs
      have hw := h.wait_key t c hpc
      constructor
      · intro u; by_cases hu : u = t
        · subst hu; have := hm u; simp [hpc, PC.holds] at this; simp [PC.holds, this]
        · simp [upd_apply, hu, hm u]
      · intro k u; by_cases hu : u = t
        · subst hu; have := hc k u; simp [hpc, PC.isLeader] at this; simp [PC.isLeader, this]
        · simp [upd_apply, hu, hc k u]
      · exact h.done_res
      · intro u hd; by_cases hu : u = t
        · subst hu; have := h.done_pc u hd; simp [hpc] at this
        · simpa [upd_apply, hu] using h.done_pc u hd
      · intro u; by_cases hu : u = t
        · subst hu; simp
        · simpa [upd_apply, hu] using h.res_pc u
      · intro u c'; by_cases hu : u = t
        · subst hu; simp
        · simpa [upd_apply, hu] using h.wait_key u c'
      · intro u r c'; by_cases hu : u = t
        · subst hu; simp; intro hr e; subst e; subst hr; exact ⟨h.done_res _ hdone, hw.1⟩
        · simpa [upd_apply, hu] using h.ret_wait u r c'
      · intro u r; by_cases hu : u = t
        · subst hu; simp
        · simpa [upd_apply, hu] using h.ret_lead u r
    · simp at hs
  -- lead → parsing
  · rename_i hpc
    simp at hs; subst hs
    constructor
    · intro u; by_cases hu : u = t
      · subst hu; have := hm u; simp [hpc, PC.holds] at this; simp [PC.holds, this]
      · simp [upd_apply, hu, hm u]
    · intro k u; by_cases hu : u = t
      · subst hu; have := hc k u; simp [hpc, PC.isLeader] at this; simp [PC.isLeader, this]
      · simp [upd_apply, hu, hc k u]
    · exact h.done_res
    · intro u hd; by_cases hu : u = t
      · subst hu; have := h.done_pc u hd; simp [hpc] at this
      · simpa [upd_apply, hu] using h.done_pc u hd
    · intro u; by_cases hu : u = t
      · subst hu; simp
      · simpa [upd_apply, hu] using h.res_pc u
    · intro u c'; by_cases hu : u = t
      · subst hu; simp
      · simpa [upd_apply, hu] using h.wait_key u c'
    · intro u r c'; by_cases hu : u = t
      · subst hu; simp
      · simpa [upd_apply, hu] using h.ret_wait u r c'
    · intro u r; by_cases hu : u = t
      · subst hu; simp
      · simpa [upd_apply, hu] using h.ret_lead u r
  -- parsing → assigned: `c.res = fn()`
  · rename_i hpc
    simp at hs; subst hs
    have hnd : s.done t = false := by
      cases hd : s.done t
      · rfl
      · have := h.done_pc t hd; simp [hpc] at this
    constructor
    · intro u; by_cases hu : u = t
      · subst hu; have := hm u; simp [hpc, PC.holds] at this; simp [PC.holds, this]
      · simp [upd_apply, hu, hm u]
    · intro k u; by_cases hu : u = t
      · subst hu; have := hc k u; simp [hpc, PC.isLeader] at this; simp [PC.isLeader, this]
      · simp [upd_apply, hu, hc k u]
    · intro u hd; by_cases hu : u = t
      · subst hu; simp
      · simpa [upd_apply, hu] using h.done_res u hd
    · intro u hd; by_cases hu : u = t
      · subst hu; simp [hnd] at hd
      · simpa [upd_apply, hu] using h.done_pc u hd
    · intro u; by_cases hu : u = t
      · subst hu; simp
      · simpa [upd_apply, hu] using h.res_pc u
    · intro u c'; by_cases hu : u = t
      · subst hu; simp
      · simpa [upd_apply, hu] using h.wait_key u c'
    · intro u r c'; by_cases hu : u = t
      · subst hu; simp
      · simpa [upd_apply, hu] using h.ret_wait u r c'
    · intro u r; by_cases hu : u = t
      · subst hu; simp
      · simpa [upd_apply, hu] using h.ret_lead u r
  -- assigned → signalled: `c.wg.Done()`
  · rename_i hpc
    simp at hs; subst hs
    have hres := h.res_pc t (Or.inl hpc)
    constructor
    · intro u; by_cases hu : u = t
      · subst hu; have := hm u; simp [hpc, PC.holds] at this; simp [PC.holds, this]
      · simp [upd_apply, hu, hm u]
    · intro k u; by_cases hu : u = t
      · subst hu; have := hc k u; simp [hpc, PC.isLeader] at this; simp [PC.isLeader, this]
      · simp [upd_apply, hu, hc k u]
    · intro u hd; by_cases hu : u = t
      · subst hu; exact hres
      · exact h.done_res u (by simpa [upd_apply, hu] using hd)
    · intro u hd; by_cases hu : u = t
      · subst hu; simp
      · have := h.done_pc u (by simpa [upd_apply, hu] using hd); simpa [upd_apply, hu] using this
    · intro u; by_cases hu : u = t
      · subst hu; simp [hres]
      · simpa [upd_apply, hu] using h.res_pc u
    · intro u c'; by_cases hu : u = t
      · subst hu; simp
      · simpa [upd_apply, hu] using h.wait_key u c'
    · intro u r c'; by_cases hu : u = t
      · subst hu; simp
      · simpa [upd_apply, hu] using h.ret_wait u r c'
    · intro u r; by_cases hu : u = t
      · subst hu; simp
      · simpa [upd_apply, hu] using h.ret_lead u r
  -- signalled → deleting: re-acquire the mutex
  · rename_i hpc
    split at hs
    · rename_i hfree
      simp at hs; subst hs
      have hres := h.res_pc t (Or.inr (Or.inl hpc))
      constructor
      · intro u; by_cases hu : u = t
        · subst hu; simp [PC.holds]
        · have := hm u; simp [hfree] at this; simp [upd_apply, hu, this, Ne.symm hu]
      · intro k u; by_cases hu : u = t
        · subst hu; have := hc k u; simp [hpc, PC.isLeader] at this; simp [PC.isLeader, this]
        · simp [upd_apply, hu, hc k u]
      · exact h.done_res
      · intro u hd; by_cases hu : u = t
        · subst hu; simp
        · simpa [upd_apply, hu] using h.done_pc u hd
      · intro u; by_cases hu : u = t
        · subst hu; simp [hres]
        · simpa [upd_apply, hu] using h.res_pc u
      · intro u c'; by_cases hu : u = t
        · subst hu; simp
        · simpa [upd_apply, hu] using h.wait_key u c'
      · intro u r c'; by_cases hu : u = t
        · subst hu; simp
        · simpa [upd_apply, hu] using h.ret_wait u r c'
      · intro u r; by_cases hu : u = t
        · subst hu; simp
        · simpa [upd_apply, hu] using h.ret_lead u r
    · simp at hs
  -- deleting: remove own entry, unlock, return
  · rename_i hpc
    simp at hs; subst hs
    have hres := h.res_pc t (Or.inr (Or.inr hpc))
    have hown : s.calls (s.key t) = some t := (hc (s.key t) t).2 ⟨by simp [hpc, PC.isLeader], rfl⟩
    constructor
    · intro u; by_cases hu : u = t
      · subst hu; simp [PC.holds]
      · have h1 := hm u; have h2 := hm t
        simp [hpc, PC.holds] at h2
        simp [upd_apply, hu]
        cases hh : (s.pc u).holds
        · rfl
        · have := h1.2 hh; rw [h2] at this; exact absurd (Option.some.inj this).symm hu
    · intro k u; by_cases hu : u = t
      · subst hu
        by_cases hk : k = s.key u
        · subst hk; simp [PC.isLeader]
        · have := hc k u; simp [hpc, PC.isLeader] at this
          simp [upd_apply, hk, PC.isLeader]; intro e; exact absurd (this.1 e).symm hk
      · by_cases hk : k = s.key t
        · subst hk
          simp [upd_apply, hu]
          intro hl hk'
          have := (hc (s.key t) u).2 ⟨hl, hk'⟩
          rw [hown] at this; exact hu (Option.some.inj this).symm
        · simp [upd_apply, hu, hk, hc k u]
    · exact h.done_res
    · intro u hd; by_cases hu : u = t
      · subst hu; simp
      · simpa [upd_apply, hu] using h.done_pc u hd
    · intro u; by_cases hu : u = t
      · subst hu; simp
      · simpa [upd_apply, hu] using h.res_pc u
    · intro u c'; by_cases hu : u = t
      · subst hu; simp
      · simpa [upd_apply, hu] using h.wait_key u c'
    · intro u r c'; by_cases hu : u = t
      · subst hu; simp
      · simpa [upd_apply, hu] using h.ret_wait u r c'
    · intro u r; by_cases hu : u = t
      · subst hu; simp; intro e; rw [← e, hres]
      · simpa [upd_apply, hu] using h.ret_lead u r
  -- returned: no step
  · simp at hs
end preservation

/-- every state reachable under any schedule satisfies the invariant -/
def runSched (s : St) : List Tid → St
  | [] => s
  | t :: r => match step s t with
    | some s' => runSched s' r
    | none => runSched s r          -- a disabled thread's turn is a no-op

theorem inv_reachable (key parse) (σ : List Tid) : SFInv (runSched (init key parse) σ) := by
  suffices ∀ s, SFInv s → SFInv (runSched s σ) from this _ (inv_init key parse)
  induction σ with
  | nil => intro s h; exact h
  | cons t r ih =>
    intro s h
    simp only [runSched]
    cases hs : step s t with
    | none => exact ih s h
    | some s' => exact ih s' (inv_step h hs)

end Gomjml.SingleFlight
