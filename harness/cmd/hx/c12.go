package main

import (
	"encoding/hex"
	"fmt"
	"regexp"
	"sort"
	"strings"

	"github.com/preslavrachev/gomjml/mjml"
	mhtml "github.com/preslavrachev/gomjml/mjml/html"
)

var interTagWS = regexp.MustCompile(`>\s+<`)
var debugAttrRe = regexp.MustCompile(` data-mj-debug-[a-z-]+="[^"]*"`)

// canonWS: equality "up to whitespace between tags"
func canonWS(s string) string { return strings.TrimSpace(interTagWS.ReplaceAllString(s, "><")) }

type rewrite struct {
	name string
	opts func(r *Rng) PrintOpts
	pre  func(r *Rng) string         // text placed before the root
	tree func(r *Rng, n *Node) *Node // an equivalent tree (nil = the tree as it is)
}

// splitHead: the same head written differently — every declaration of mj-attributes with two or more attributes written as two
// declarations, the declarations spread over two mj-attributes blocks (relative order kept), the other head elements moved in
// front of or behind them
func splitHead(r *Rng, n *Node) *Node {
	d := n.Clone()
	for _, k := range d.Kids {
		if k.Tag != "mj-head" {
			continue
		}
		var blocks, others []*Node
		for _, h := range k.Kids {
			if h.Tag != "mj-attributes" {
				others = append(others, h)
				continue
			}
			var decls []*Node
			for _, e := range h.Kids {
				var name [][2]string
				var rest [][2]string
				for _, a := range e.Attrs {
					if e.Tag == "mj-class" && a[0] == "name" {
						name = append(name, a)
					} else {
						rest = append(rest, a)
					}
				}
				if len(rest) < 2 || len(e.Kids) > 0 {
					decls = append(decls, e)
					continue
				}
				cut := 1 + r.Intn(len(rest)-1)
				a, b := &Node{Tag: e.Tag}, &Node{Tag: e.Tag}
				a.Attrs = append(append([][2]string{}, name...), rest[:cut]...)
				b.Attrs = append(append([][2]string{}, name...), rest[cut:]...)
				decls = append(decls, a, b)
			}
			cut := 0
			if len(decls) > 0 {
				cut = r.Intn(len(decls) + 1)
			}
			b1 := &Node{Tag: "mj-attributes", Kids: decls[:cut]}
			b2 := &Node{Tag: "mj-attributes", Kids: decls[cut:]}
			blocks = append(blocks, b1, b2)
		}
		if len(blocks) == 0 {
			continue
		}
		// mj-style elements keep their order among themselves; everything else may stand on either side of the attribute blocks
		if r.Bool(1, 2) {
			k.Kids = append(append([]*Node{}, blocks...), others...)
		} else {
			k.Kids = append(append([]*Node{}, others...), blocks...)
		}
	}
	return d
}

var leadingComments = []string{"<!-- a comment -->\n", "\n\n  \n", "<!-- c1 --><!-- c2 -->\n\n", "\r\n<!-- multi\nline\ncomment -->\r\n", "  <!-- x --> \t\n",
	// punctuation a scanner could mistake for markup: unpaired quotes, angle brackets, ampersands
	"<!--> note -->\n", "<!---> note -->", "<!--<mjml>-->", "<!---->", "<!-- - -->\n",
	// banners over several lines with dashes inside (not well-formed as XML comments; in front of the root they are removed
	// as text, like any other comment)
	"<!--\n ---- banner ----\n-->\n", "<!-- Newsletter -- October\n     (c) ACME -->\r\n", "<!--\n-- a\n-- b\n--->\n",
	"<!-- generated file, don't edit -->\n", "<!-- 15\" banner -->\n", "<!-- a & b < c > d -->\n", "<!-- it's \"x\" & <mj-text> -->\n"}

// what may stand in front of the root element without being part of the document: a byte-order mark, an XML declaration, a
// doctype, comments, blank lines — and their combinations
var prologs = []string{"\ufeff", "\ufeff\n", "\ufeff<!-- c -->\n", "<?xml version=\"1.0\" encoding=\"UTF-8\"?>\n", "\ufeff<?xml version=\"1.0\"?>\n",
	"<!DOCTYPE mjml>\n", "<?xml version=\"1.0\"?>\n<!DOCTYPE mjml>\n<!-- c -->\n", "\ufeff\r\n\r\n", "<?xml version='1.0' standalone='yes'?>"}

func rewrites() []rewrite {
	plain := func(r *Rng) PrintOpts { return PrintOpts{} }
	return []rewrite{
		{name: "prolog", opts: plain, pre: func(r *Rng) string { return r.Pick(prologs) }},
		{name: "indent-lf", opts: func(r *Rng) PrintOpts { return PrintOpts{Indent: true, Newline: "\n"} }},
		{name: "indent-crlf", opts: func(r *Rng) PrintOpts { return PrintOpts{Indent: true, Newline: "\r\n"} }},
		{name: "attr-order", opts: func(r *Rng) PrintOpts {
			return PrintOpts{AttrPerm: func(n int) []int { return r.Perm(n) }}
		}},
		{name: "single-quotes", opts: func(r *Rng) PrintOpts { return PrintOpts{Quote: '\''} }},
		{name: "self-closing", opts: func(r *Rng) PrintOpts { return PrintOpts{SelfClose: true} }},
		{name: "head-split", opts: plain, tree: splitHead},
		{name: "tag-space", opts: func(r *Rng) PrintOpts {
			return PrintOpts{TagSpace: func() string { return r.Pick([]string{"", "", " ", "  ", "\n", "\t", "\r\n "}) }, SelfClose: r.Bool(1, 2)}
		}},
		{name: "tag-space-all", opts: func(r *Rng) PrintOpts { return PrintOpts{TagSpace: func() string { return " " }} }},
		{name: "leading-comment", opts: plain, pre: func(r *Rng) string { return r.Pick(leadingComments) }},
		{name: "combined", opts: func(r *Rng) PrintOpts {
			return PrintOpts{Indent: true, Newline: r.Pick([]string{"\n", "\r\n"}), AttrPerm: func(n int) []int { return r.Perm(n) },
				Quote: []byte{'"', '\''}[r.Intn(2)], SelfClose: r.Bool(1, 2)}
		}, pre: func(r *Rng) string { return r.Pick([]string{"", "<!-- c -->\n", "\n"}) }, tree: func(r *Rng, n *Node) *Node {
			if r.Bool(1, 2) {
				return splitHead(r, n)
			}
			return n
		}},
	}
}

func renderSeq(src string, opts ...mjml.RenderOption) (string, string) {
	var h string
	var err error
	if p := safely(func() { h, err = mjml.Render(src, opts...) }); p != nil {
		return "", fmt.Sprint("panic: ", p)
	}
	e := ""
	if err != nil {
		e = err.Error()
	}
	return h, e
}

func runC12(res *Result, tier string, seed int64, replay string) {
	res.Rule = "metamorphic pairs: documents = seeded grammar documents (whole component grammar, heads with attributes / classes / fonts / styles) + every fixture for the debug rewrite; rewrites of the SOURCE: indentation + LF, indentation + CRLF (between structural elements only), attribute order within every tag, single quotes, self-closing empty elements, the head written differently (a declaration of mj-attributes split in two, the declarations spread over two blocks, other head elements before or after them), white space inside tags (before '>' and '/>', around '=', between attributes, in end tags), comments / blank lines / a byte-order mark / an XML declaration / a doctype before the root (all of them, exhaustively, on documents whose content is cut out of the source by position: mj-raw in head and body, mj-text, mj-table, mj-button, mj-style), and random combinations; the whole source with LF vs CRLF line ends on hand-written multi-line documents (explicit CDATA on its own line in mj-text / mj-button / mj-raw, inline HTML, void tags, end tags, table rows, styles, attributes over several lines); outputs must be equal up to whitespace between tags (ids α-renamed), errors identical; rewrite of the OPTIONS: WithDebugTags output minus data-mj-debug-* attributes must equal the normal output byte for byte. HTMLTag correspondence: seeded operation lists on the real html.HTMLTag vs the Lean byte-exact model (driver `tag`). Non-trivial = document with ≥3 elements carrying ≥2 attributes; distinct by (document, rewrite)"
	n := 250
	if tier == "thorough" {
		n = 8000
	}
	type doc struct {
		name string
		node *Node
		src  string
	}
	var docs []doc
	for i := 0; i < n; i++ {
		d := genRich(NewRng(seed, fmt.Sprintf("c12/%d", i)), &RichOpts{Head: true, MaxAttrs: 4, Features: true, CSSInline: true})
		docs = append(docs, doc{fmt.Sprintf("gen:%d", i), d, d.MJML()})
	}
	// documents whose text and attribute values carry what the textual pre-passes rewrite: raw ampersands, named and numeric
	// character references, quotes inside attribute values
	leafDocs := [][]*Node{
		{{Tag: "mj-text", Text: "Fish & Chips &rarr; caf&eacute; &amp; more &#169; &#x2014;"}},
		{(&Node{Tag: "mj-button", Text: "Go &amp; see &#169;"}).Set("href", "http://x/?a=1&b=2&c=3")},
		{(&Node{Tag: "mj-image"}).Set("src", "http://x/i.png?w=1&h=2").Set("alt", "big &amp; small"), {Tag: "mj-text", Text: "a &lt; b"}},
		{{Tag: "mj-text", Text: `<a href="http://x/?q=1&r=2">l&ouml;nk</a> it's`}, {Tag: "mj-raw", Text: "<p>x & y</p>"}},
	}
	for i, leaves := range leafDocs {
		col := &Node{Tag: "mj-column", Kids: leaves}
		nd := &Node{Tag: "mjml", Kids: []*Node{{Tag: "mj-body", Kids: []*Node{{Tag: "mj-section", Kids: []*Node{col}}}}}}
		docs = append(docs, doc{fmt.Sprintf("entities:%d", i), nd, nd.MJML()})
	}
	// content the parser cuts out of the source text by position (mj-raw in head and body, mj-text, mj-table, mj-button, mj-style):
	// anything in front of the root shifts those positions
	{
		nd := &Node{Tag: "mjml", Kids: []*Node{
			{Tag: "mj-head", Kids: []*Node{{Tag: "mj-raw", Text: `<meta name="x" content="y">`}, {Tag: "mj-style", Text: ".a { color: red; }"}, {Tag: "mj-title", Text: "Ti"}}},
			{Tag: "mj-body", Kids: []*Node{{Tag: "mj-raw", Text: `<div class="tracking">x</div>`}, {Tag: "mj-section", Kids: []*Node{{Tag: "mj-column", Kids: []*Node{
				{Tag: "mj-raw", Text: "<p>in column</p>"}, {Tag: "mj-text", Text: "<b>bold</b> text"}, {Tag: "mj-table", Text: "<tr><td>c</td></tr>"},
				(&Node{Tag: "mj-button", Text: "<i>go</i>"}).Set("href", "u")}}}}}},
		}}
		docs = append(docs, doc{"entities:positional", nd, nd.MJML()})
	}
	// elements written without content, every one that may be empty: the self-closing rewrite turns each into <x/>
	{
		nd := &Node{Tag: "mjml", Kids: []*Node{
			{Tag: "mj-head", Kids: []*Node{{Tag: "mj-raw"}, {Tag: "mj-title"}, {Tag: "mj-preview"}, {Tag: "mj-style"}, {Tag: "mj-attributes"}}},
			{Tag: "mj-body", Kids: []*Node{{Tag: "mj-raw"}, {Tag: "mj-section", Kids: []*Node{{Tag: "mj-column", Kids: []*Node{
				{Tag: "mj-raw"}, {Tag: "mj-text"}, {Tag: "mj-spacer"}, {Tag: "mj-divider"}, (&Node{Tag: "mj-button"}).Set("href", "u"), {Tag: "mj-table"}, (&Node{Tag: "mj-image"}).Set("src", "i.png"), {Tag: "mj-text", Text: "after"}}}, {Tag: "mj-column"}}},
				{Tag: "mj-section"}, {Tag: "mj-wrapper"}, {Tag: "mj-hero"}}},
		}}
		docs = append(docs, doc{"entities:empty-elements", nd, nd.MJML()})
	}
	// raw content that ends in a void element written without "/" (the XML layer closes it with an end token of its own), the
	// mj-raw being the LAST child of its column / section / body: with and without white space between the end tags
	{
		nd := &Node{Tag: "mjml", Kids: []*Node{
			{Tag: "mj-body", Kids: []*Node{{Tag: "mj-section", Kids: []*Node{{Tag: "mj-column", Kids: []*Node{
				{Tag: "mj-text", Text: "before"}, {Tag: "mj-raw", Text: `<p>r</p><br>`}}}, {Tag: "mj-raw", Text: `<img src="i.png">`}}},
				{Tag: "mj-raw", Text: `tail<hr>`}}},
		}}
		docs = append(docs, doc{"entities:raw-last-child-ends-in-void", nd, nd.MJML()})
	}
	rws := rewrites()
	// sequential: documents carry different heads (see C07)
	for i, d := range docs {
		base, berr := renderSeq(d.src)
		multi := 0
		d.node.Walk(func(x *Node) {
			if len(x.Attrs) >= 2 {
				multi++
			}
		})
		for _, rw := range rws {
			r := NewRng(seed, fmt.Sprintf("c12/%d/%s", i, rw.name))
			tree := d.node
			if rw.tree != nil {
				tree = rw.tree(r, d.node)
			}
			v := tree.Print(rw.opts(r))
			if rw.pre != nil {
				v = rw.pre(r) + v
			}
			got, gerr := renderSeq(v)
			res.Case(d.src+"|"+rw.name, multi >= 3)
			res.Count("rewrite=" + rw.name)
			if i%70 == 0 && rw.name == "combined" {
				res.Sample(map[string]string{"rewrite": rw.name, "variant": short(v, 400)})
			}
			if canonWS(alphaIDs(got)) != canonWS(alphaIDs(base)) || gerr != berr {
				a, b := canonWS(alphaIDs(got)), canonWS(alphaIDs(base))
				at := firstDiff(a, b)
				res.Violate(Violation{Sig: "rewrite-changes-output|" + rw.name, Kind: "input",
					What:  fmt.Sprintf("rewrite %s changes the output at offset %d: …%s… vs original …%s… (errors %q vs %q)", rw.name, at, around(a, at), around(b, at), gerr, berr),
					Input: map[string]string{"source": d.src, "variant": v, "rewrite": rw.name}})
			}
		}
		// the entity documents get every leading comment, not a sampled one
		if strings.HasPrefix(d.name, "entities:") {
			for ci, pre := range append(append([]string{}, leadingComments...), prologs...) {
				got, gerr := renderSeq(pre + d.src)
				res.Case(d.src+"|leading-comment-all|"+fmt.Sprint(ci), true)
				res.Count("rewrite=leading-comment(exhaustive)")
				if canonWS(alphaIDs(got)) != canonWS(alphaIDs(base)) || gerr != berr {
					a, b := canonWS(alphaIDs(got)), canonWS(alphaIDs(base))
					at := firstDiff(a, b)
					res.Violate(Violation{Sig: "rewrite-changes-output|leading-comment", Kind: "input",
						What:  fmt.Sprintf("leading comment %q changes the output at offset %d: …%s… vs original …%s… (errors %q vs %q)", pre, at, around(a, at), around(b, at), gerr, berr),
						Input: map[string]string{"source": d.src, "variant": pre + d.src, "rewrite": "leading-comment"}})
				}
			}
		}
		// debug tags
		dbg, derr := renderSeq(d.src, mjml.WithDebugTags(true))
		res.Case(d.src+"|debug", strings.Contains(dbg, "data-mj-debug-"))
		res.Count("rewrite=debug")
		if debugAttrRe.ReplaceAllString(dbg, "") != base && alphaIDs(debugAttrRe.ReplaceAllString(dbg, "")) != alphaIDs(base) || derr != berr {
			a, b := alphaIDs(debugAttrRe.ReplaceAllString(dbg, "")), alphaIDs(base)
			at := firstDiff(a, b)
			res.Violate(Violation{Sig: "debug-tags-change-output", Kind: "input", What: fmt.Sprintf("debug output minus data-mj-debug-* differs from the normal output at %d: …%s… vs …%s…", at, around(a, at), around(b, at)),
				Input: map[string]string{"source": d.src}})
		}
	}
	// line ends: the same source written with LF and with CRLF line ends (XML reads both as LF). Hand-written documents whose
	// content spans lines in every way: an explicit CDATA section on its own line inside mj-text / mj-button / mj-raw, inline HTML
	// and void tags over several lines, table rows, styles, attributes on their own lines, end tags over several lines
	for li, ld := range lineEndDocs() {
		lf := strings.ReplaceAll(ld, "\r\n", "\n")
		crlf := strings.ReplaceAll(lf, "\n", "\r\n")
		a, ae := renderSeq(lf)
		b, be := renderSeq(crlf)
		res.Case(fmt.Sprintf("line-ends|%d", li), true)
		res.Count("rewrite=line-ends")
		na, nb := canonWS(alphaIDs(strings.ReplaceAll(a, "\r\n", "\n"))), canonWS(alphaIDs(strings.ReplaceAll(b, "\r\n", "\n")))
		if na != nb || ae != be {
			at := firstDiff(na, nb)
			res.Violate(Violation{Sig: "rewrite-changes-output|line-ends", Kind: "input",
				What:  fmt.Sprintf("CRLF line ends change the output at offset %d: …%s… vs LF …%s… (errors %q vs %q)", at, around(nb, at), around(na, at), be, ae),
				Input: map[string]string{"source": lf, "variant": crlf, "rewrite": "line-ends"}})
		}
	}
	// escaped text vs the same characters in a CDATA section, in the middle of a text with blanks around it, in every content
	// slot that reads character data (XML does not distinguish the two spellings)
	{
		slots := map[string]func(string) string{
			"table-cell": func(c string) string { return "<mj-table><tr><td>" + c + "</td><td> " + c + " </td></tr></mj-table>" },
			"button":     func(c string) string { return `<mj-button href="u">` + c + "</mj-button>" },
			"navbar-link": func(c string) string {
				return `<mj-navbar><mj-navbar-link href="/a">` + c + "</mj-navbar-link></mj-navbar>"
			},
			"accordion-title": func(c string) string {
				return "<mj-accordion><mj-accordion-element><mj-accordion-title>" + c + "</mj-accordion-title><mj-accordion-text>" + c + "</mj-accordion-text></mj-accordion-element></mj-accordion>"
			},
			"social-element": func(c string) string {
				return `<mj-social><mj-social-element name="facebook" href="h">` + c + "</mj-social-element></mj-social>"
			},
			"inline-in-button": func(c string) string { return `<mj-button href="u">x <b>` + c + "</b> y</mj-button>" },
			"title-preview":    func(c string) string { return "" },
		}
		pairs := [][2]string{{"Tom &amp; Jerry", "Tom <![CDATA[&]]> Jerry"}, {"a &lt;b&gt; c", "a <![CDATA[<b>]]> c"}, {"1 &lt; 2 &amp;&amp; 3 &gt; 2", "1 <![CDATA[<]]> 2 <![CDATA[&&]]> 3 <![CDATA[>]]> 2"},
			{"x &amp;copy; y", "x <![CDATA[&copy;]]> y"}, {"lead &amp;", "lead <![CDATA[&]]>"}, {"&amp; trail", "<![CDATA[&]]> trail"}}
		var names []string
		for n := range slots {
			names = append(names, n)
		}
		sort.Strings(names)
		for _, n := range names {
			for pi, pr := range pairs {
				var da, db string
				if n == "title-preview" {
					da = "<mjml><mj-head><mj-title>" + pr[0] + "</mj-title><mj-preview>" + pr[0] + "</mj-preview></mj-head><mj-body><mj-section><mj-column><mj-text>t</mj-text></mj-column></mj-section></mj-body></mjml>"
					db = "<mjml><mj-head><mj-title>" + pr[1] + "</mj-title><mj-preview>" + pr[1] + "</mj-preview></mj-head><mj-body><mj-section><mj-column><mj-text>t</mj-text></mj-column></mj-section></mj-body></mjml>"
				} else {
					da = "<mjml><mj-body><mj-section><mj-column>" + slots[n](pr[0]) + "</mj-column></mj-section></mj-body></mjml>"
					db = "<mjml><mj-body><mj-section><mj-column>" + slots[n](pr[1]) + "</mj-column></mj-section></mj-body></mjml>"
				}
				a, ae := renderSeq(da)
				b, be := renderSeq(db)
				res.Case(fmt.Sprintf("cdata-vs-escaped|%s|%d", n, pi), true)
				res.Count("rewrite=cdata-vs-escaped")
				if alphaIDs(a) != alphaIDs(b) || ae != be {
					at := firstDiff(alphaIDs(b), alphaIDs(a))
					res.Violate(Violation{Sig: "rewrite-changes-output|cdata-vs-escaped|" + n, Kind: "input",
						What:  fmt.Sprintf("%s: %q written as %q changes the output at offset %d: …%s… vs …%s… (errors %q vs %q)", n, pr[0], pr[1], at, around(alphaIDs(b), at), around(alphaIDs(a), at), be, ae),
						Input: map[string]string{"source": da, "variant": db, "rewrite": "cdata-vs-escaped"}})
				}
			}
		}
	}
	for _, f := range loadFixtures() {
		base, berr := renderSeq(f.MJML)
		dbg, derr := renderSeq(f.MJML, mjml.WithDebugTags(true))
		res.Case(f.MJML+"|debug", strings.Contains(dbg, "data-mj-debug-"))
		if alphaIDs(debugAttrRe.ReplaceAllString(dbg, "")) != alphaIDs(base) || derr != berr {
			res.Violate(Violation{Sig: "debug-tags-change-output", Kind: "input", What: "fixture " + f.Name + ": debug output minus data-mj-debug-* differs from the normal output", Input: map[string]string{"source": f.MJML}})
		}
	}
	// HTMLTag correspondence
	drv, err := startDriver()
	if err != nil {
		res.Disagree(Violation{Sig: "driver-missing", What: err.Error()})
		return
	}
	defer drv.Close()
	hx := func(s string) string { return hex.EncodeToString([]byte(s)) }
	names := []string{"role", "border", "align", "data-mj-debug-text", "width", "style", "class", "a", ""}
	vals := []string{"0", "x y", "", "100%", "a\"b", "é", "&amp;", "<"}
	nt := 400
	if tier == "thorough" {
		nt = 20000
	}
	for i := 0; i < nt; i++ {
		r := NewRng(seed, fmt.Sprintf("c12/tag/%d", i))
		tn := r.Pick([]string{"div", "table", "td", "v:rect", "img"})
		tag := mhtml.NewHTMLTag(tn)
		ops := []string{hx(tn)}
		for j, m := 0, r.Intn(9); j < m; j++ {
			a, v := r.Pick(names), r.Pick(vals)
			switch r.Intn(5) {
			case 0:
				tag.AddAttribute(a, v)
				ops = append(ops, "a:"+hx(a)+":"+hx(v))
			case 1:
				if r.Bool(1, 3) {
					tag.MaybeAddAttribute(a, nil)
					ops = append(ops, "ma:"+hx(a)+":-")
				} else {
					vv := v
					tag.MaybeAddAttribute(a, &vv)
					ops = append(ops, "ma:"+hx(a)+":"+hx(v))
				}
			case 2:
				tag.AddClass(v)
				ops = append(ops, "c:"+hx(v))
			case 3:
				tag.AddStyle(a, v)
				ops = append(ops, "s:"+hx(a)+":"+hx(v))
			case 4:
				tag.MaybeAddStyleString(a, v)
				ops = append(ops, "ms:"+hx(a)+":"+hx(v))
			}
		}
		var o, c, s strings.Builder
		tag.RenderOpen(&o)
		tag.RenderClose(&c)
		tag.RenderSelfClosing(&s)
		want := hx(o.String()) + " " + hx(c.String()) + " " + hx(s.String())
		got, err := drv.Ask("tag " + strings.Join(ops, " "))
		res.mu.Lock()
		res.Programs++
		res.DisagreementsChecked++
		res.mu.Unlock()
		if err != nil || got != want {
			res.Disagree(Violation{Sig: "htmltag-model-mismatch", Kind: "input", What: fmt.Sprintf("HTMLTag ops %v: implementation %q, Lean model differs", ops, o.String()), Input: map[string]interface{}{"ops": ops}})
			break
		}
	}
}

// lineEndDocs: multi-line documents (written with LF here) for the LF / CRLF pair
func lineEndDocs() []string {
	wrap := func(inner string) string {
		return "<mjml>\n<mj-body>\n<mj-section>\n<mj-column>\n" + inner + "\n</mj-column>\n</mj-section>\n</mj-body>\n</mjml>\n"
	}
	var out []string
	for _, ws := range []string{"\n", "\n   ", " \n\t", "\n\n", " ", ""} {
		out = append(out,
			wrap("<mj-text>"+ws+"<![CDATA[Hello <b>world</b>]]>"+ws+"</mj-text>"),
			wrap("<mj-button href=\"u\">"+ws+"<![CDATA[Go <i>now</i>]]>"+ws+"</mj-button>"),
			wrap("<mj-raw>"+ws+"<![CDATA[<p>raw</p>]]>"+ws+"</mj-raw>"),
			wrap("<mj-text"+ws+"color=\"#111111\""+ws+">line one<br"+ws+"/>line two"+ws+"<img src=\"i.png\""+ws+"alt=\"a\""+ws+"/></mj-text"+ws+">"),
			wrap("<mj-table>"+ws+"<tr>"+ws+"<td>a</td>"+ws+"<td>b</td>"+ws+"</tr>"+ws+"</mj-table>"),
			wrap("<mj-accordion>"+ws+"<mj-accordion-element>"+ws+"<mj-accordion-title>T"+ws+"i</mj-accordion-title>"+ws+"<mj-accordion-text>X"+ws+"y</mj-accordion-text>"+ws+"</mj-accordion-element>"+ws+"</mj-accordion>"),
			wrap("<mj-navbar>"+ws+"<mj-navbar-link href=\"/a\">A"+ws+"a</mj-navbar-link>"+ws+"</mj-navbar>"+ws+"<mj-social>"+ws+"<mj-social-element name=\"facebook\" href=\"h\">F"+ws+"b</mj-social-element>"+ws+"</mj-social>"))
	}
	// placeholders: raw elements that hold nothing but white space with line breaks, alone in a wrapper / section / column / hero
	// / the body, and next to real content (whether something counts as "blank" must not depend on the line ends)
	for _, blank := range []string{"<mj-raw>\n</mj-raw>", "<mj-raw>\n  \n</mj-raw>", "<mj-raw> \n\t</mj-raw>"} {
		sec := "<mj-section>\n<mj-column>\n<mj-text>t</mj-text>\n</mj-column>\n</mj-section>"
		out = append(out,
			"<mjml>\n<mj-body>\n<mj-wrapper>\n"+blank+"\n</mj-wrapper>\n"+sec+"\n</mj-body>\n</mjml>",
			"<mjml>\n<mj-body>\n<mj-wrapper>\n"+blank+"\n"+blank+"\n</mj-wrapper>\n<mj-wrapper>\n"+blank+"\n"+sec+"\n"+blank+"\n</mj-wrapper>\n</mj-body>\n</mjml>",
			"<mjml>\n<mj-body>\n"+blank+"\n"+sec+"\n"+blank+"\n<mj-section>\n"+blank+"\n</mj-section>\n<mj-section>\n<mj-column>\n"+blank+"\n</mj-column>\n<mj-group>\n"+blank+"\n<mj-column>\n<mj-text>g</mj-text>\n</mj-column>\n</mj-group>\n</mj-section>\n<mj-hero>\n"+blank+"\n</mj-hero>\n</mj-body>\n</mjml>",
			"<mjml>\n<mj-head>\n"+blank+"\n</mj-head>\n<mj-body>\n"+sec+"\n</mj-body>\n</mjml>",
			wrap("<mj-navbar>\n"+blank+"\n<mj-navbar-link href=\"/a\">A</mj-navbar-link>\n</mj-navbar>\n<mj-social>\n"+blank+"\n</mj-social>\n<mj-accordion>\n"+blank+"\n</mj-accordion>"))
	}
	out = append(out, "<mjml>\n<mj-head>\n<mj-title>a\ntitle</mj-title>\n<mj-preview>pre\nview</mj-preview>\n<mj-style>\n.a {\n  color: red;\n}\n</mj-style>\n<mj-style inline=\"inline\">\n.b {\n  color: blue;\n}\n</mj-style>\n<mj-raw>\n<meta name=\"x\"\n content=\"y\"/>\n</mj-raw>\n<mj-attributes>\n<mj-text\n color=\"#222222\"\n/>\n</mj-attributes>\n</mj-head>\n<mj-body>\n<mj-section>\n<mj-column>\n<mj-text css-class=\"b\">x</mj-text>\n</mj-column>\n</mj-section>\n</mj-body>\n</mjml>")
	return out
}

func init() { register("C12", runC12) }
