import Gomjml.Core.ClassAttr
import Driver.MixP
/-! driver sub-protocol `classattr <css> <n> <part>×n <entry>…` (hex, `-` = empty); entry = `<class>:<prop>=<val>,<prop>=<val>…`
    Answer: `<hex of build> <hex of inlineStyle table (build …)> <all parts tame 0|1> <fields(build) = flatMap fields 0|1>` -/
open Gomjml.ClassAttr Gomjml.InlineCss

namespace Driver.ClsP
open Driver.MixP (unhex hexOrDash)

def entry (s : String) : Option (List UInt8 × List Decl) :=
  match s.splitOn ":" with
  | [c, ds] => some (unhex c, (ds.splitOn ",").filterMap fun d => match d.splitOn "=" with
      | [p, v] => some ⟨unhex p, unhex v⟩
      | _ => none)
  | _ => none

def tameB (s : List UInt8) : Bool := s.all fun b => Gomjml.Lengths.isAsciiSp b || Gomjml.Lengths.plain b

def handle (args : List String) : String :=
  match args with
  | css :: n :: rest =>
    match n.toNat? with
    | none => "bad-request"
    | some k =>
      let parts := (rest.take k).map unhex
      let table : Table := ((rest.drop k).filterMap entry).foldl (fun t e => t.app e.1 e.2) []
      let b := build parts (unhex css)
      let tame := parts.all tameB && tameB (unhex css)
      let ok := Gomjml.Lengths.fields b == (parts ++ [unhex css]).flatMap Gomjml.Lengths.fields
      s!"{hexOrDash b} {hexOrDash (inlineStyle table b)} {if tame then 1 else 0} {if ok then 1 else 0}"
  | _ => "bad-request"

end Driver.ClsP
