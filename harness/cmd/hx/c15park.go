package main

import (
	"encoding/json"
	"fmt"
	"os"
	"os/exec"
	"strings"
	"sync/atomic"
	"time"

	"github.com/preslavrachev/gomjml/mjml"
)

// parkchild: one scripted life of the cleanup goroutine in a fresh process, with the cleanup goroutine held at one of its
// yield points (cl.spawn: started, nothing read yet; cl.swept: a sweep just finished) while the main goroutine stops the
// cleaner, compiles with the cache, stops again …  Steps: c<d> cached compilation, s stop, park@<point> hold the next
// cleanup goroutine that arrives there, wait (until one is held), release, settle, chk<n> (n = cleanup goroutines that
// must be alive now).  Interval 1 ms, TTL 1 h.
type parkObs struct {
	Step  int   `json:"step"`
	Alive int64 `json:"alive"`
	Armed bool  `json:"armed"`
	Want  int64 `json:"want"`
	// cleanup goroutines started since the last stop
	Started int64  `json:"started"`
	Failed  string `json:"failed,omitempty"`
}

func parkChild() {
	var script []string
	if err := json.NewDecoder(os.Stdin).Decode(&script); err != nil {
		os.Exit(2)
	}
	mjml.SetASTCacheCleanupIntervalOnce(time.Millisecond)
	mjml.SetASTCacheTTLOnce(time.Hour)
	var spawned, exited atomic.Int64
	var armed atomic.Pointer[string]
	held := make(chan struct{}, 8)
	release := make(chan struct{})
	y := func(p string) {
		switch p {
		case "cl.spawn":
			spawned.Add(1)
		case "cl.exit":
			exited.Add(1)
		}
		if a := armed.Load(); a != nil && *a == p && armed.CompareAndSwap(a, nil) {
			held <- struct{}{}
			<-release
		}
	}
	mjml.VerifYield.Store(&y)
	enc := json.NewEncoder(os.Stdout)
	holding := 0
	var atStop int64
	for i, st := range script {
		switch {
		case strings.HasPrefix(st, "c") && !strings.HasPrefix(st, "chk"):
			mjml.Render(cacheDocs[int(st[1]-'0')], mjml.WithCache())
		case st == "s":
			mjml.StopASTCacheCleanup()
			atStop = spawned.Load()
		case strings.HasPrefix(st, "park@"):
			pt := st[5:]
			armed.Store(&pt)
		case st == "wait":
			select {
			case <-held:
				holding++
			case <-time.After(3 * time.Second):
				enc.Encode(parkObs{Step: i, Failed: "no cleanup goroutine arrived at the point within 3 s"})
				return
			}
		case st == "release":
			for ; holding > 0; holding-- {
				release <- struct{}{}
			}
			armed.Store(nil)
		case st == "settle":
			time.Sleep(40 * time.Millisecond)
		case strings.HasPrefix(st, "chk"):
			// a goroutine that was told to stop needs the scheduler to get there: wait (up to 3 s) for the expected count
			// before looking; what is still wrong then is wrong
			for deadline := time.Now().Add(3 * time.Second); spawned.Load()-exited.Load() != int64(st[3]-'0') && time.Now().Before(deadline); {
				time.Sleep(time.Millisecond)
			}
			enc.Encode(parkObs{Step: i, Alive: spawned.Load() - exited.Load(), Armed: mjml.VerifCleanerArmed(), Want: int64(st[3] - '0'), Started: spawned.Load() - atStop})
		}
	}
}

func parkScripts(r *Rng, n int) [][]string {
	scripts := [][]string{
		{"park@cl.swept", "c0", "wait", "s", "c1", "release", "settle", "chk1", "c0", "settle", "chk1", "s", "settle", "chk0"},
		{"park@cl.spawn", "c0", "wait", "s", "c1", "release", "settle", "chk1", "s", "settle", "chk0"},
		{"park@cl.swept", "c0", "wait", "s", "release", "settle", "chk0", "c1", "settle", "chk1", "s", "settle", "chk0"},
		{"park@cl.swept", "c0", "wait", "s", "c1", "s", "c0", "release", "settle", "chk1", "s", "settle", "chk0"},
		{"park@cl.spawn", "c0", "wait", "s", "c1", "s", "release", "settle", "chk0", "c0", "c1", "settle", "chk1", "s", "settle", "chk0"},
		{"park@cl.swept", "c2", "wait", "s", "c0", "release", "settle", "chk1", "c1", "settle", "chk1", "s", "settle", "chk0"},
		{"park@cl.swept", "c2", "wait", "s", "c2", "release", "settle", "chk1", "c2", "settle", "chk1", "s", "settle", "chk0"},
	}
	for i := 0; i < n; i++ {
		var sc []string
		want := "chk0"
		for b, nb := 0, 1+r.Intn(3); b < nb; b++ {
			sc = append(sc, "s", "settle", "park@"+r.Pick([]string{"cl.swept", "cl.swept", "cl.spawn"}), "c"+fmt.Sprint(r.Intn(3)), "wait")
			want = "chk1"
			for k, nk := 0, 1+r.Intn(4); k < nk; k++ {
				if r.Bool(1, 2) {
					sc = append(sc, "s")
					want = "chk0"
				} else {
					sc = append(sc, "c"+fmt.Sprint(r.Intn(3)))
					want = "chk1"
				}
			}
			sc = append(sc, "release", "settle", want)
			// the state must also be stable under further use
			if r.Bool(1, 2) {
				sc = append(sc, "c"+fmt.Sprint(r.Intn(3)), "settle", "chk1")
				want = "chk1"
			}
		}
		sc = append(sc, "s", "settle", "chk0")
		scripts = append(scripts, sc)
	}
	return scripts
}

// runCleanerParked: the cleanup goroutine held in the middle of its work while it is stopped and started again
func runCleanerParked(res *Result, r *Rng, n int) {
	scripts := parkScripts(r, n)
	parallel(8, len(scripts), func(i int) {
		sc := scripts[i]
		cmd := exec.Command(os.Args[0], "parkchild")
		in, _ := json.Marshal(sc)
		cmd.Stdin = strings.NewReader(string(in))
		cmd.Env = os.Environ()
		out, err := cmd.Output()
		key := "cleaner-held|" + strings.Join(sc, ",")
		res.Case(key, true)
		res.Count("cleaner-held-scripts")
		if err != nil {
			res.Violate(Violation{Sig: "process-crash|cleaner-held", Kind: "schedule", What: fmt.Sprintf("the process ended abnormally: %v", err), Input: map[string]interface{}{"script": sc}})
			return
		}
		dec := json.NewDecoder(strings.NewReader(string(out)))
		for dec.More() {
			var o parkObs
			if dec.Decode(&o) != nil {
				break
			}
			if o.Failed != "" {
				res.Count("cleaner-held=inconclusive")
				return
			}
			// the property: at most one alive; none (and none registered) after a stop; a cached compilation after a stop starts
			// one; a goroutine that is alive must be the registered one (else nothing can stop it).  A cleaner that retires by
			// itself while the cache is idle is not excluded by the property: fewer alive than "one" is judged by "was one started"
			sig, what := "", ""
			switch {
			case o.Alive > o.Want:
				sig, what = "cleaner-count-wrong|alive-more", fmt.Sprintf("%d cleanup goroutines alive, at most %d may be", o.Alive, o.Want)
			case o.Want == 0 && o.Armed:
				sig, what = "cleaner-count-wrong|registered-after-stop", "a cleanup goroutine is registered after the stop"
			case o.Want == 1 && o.Alive == 1 && !o.Armed:
				sig, what = "cleaner-count-wrong|alive-not-registered", "a cleanup goroutine is alive but not registered: nothing can stop it and the next cached compilation starts a second one"
			case o.Want == 1 && o.Started == 0:
				sig, what = "cleaner-count-wrong|none-started", "a cached compilation after a stop started no cleanup goroutine"
			}
			if sig != "" {
				res.Violate(Violation{Sig: sig, Kind: "schedule", What: fmt.Sprintf("a cleanup goroutine was held at a yield point while the cleaner was stopped / the cache used: step %d of %v: %s", o.Step, sc, what), Input: map[string]interface{}{"script": sc}})
				return
			}
		}
	})
}
