import Gomjml.Core.CharData
import Gomjml.Core.InlineCss
/-! # Inline content written back as HTML (`(*MJMLNode).GetMixedContent`, `parser/parser.go`)

The content of mj-button, mj-navbar-link, mj-social-element, mj-accordion-title / -text is kept by the parser as a tree (text
runs and inline elements, in order) and serialised again when the component is rendered.  This file holds

* the byte-exact Model of that serialiser (`content`, with the trimming the Go code does at the ends of every level), tied to
  the implementation by the correspondence run `mixed` of `hx C04`;
* its core without the trimming (`serParts`), a reader for the markup it produces (`read`: what a client's tokenizer does
  with it — tags with double-quoted attributes, the three character references in text, `&quot;` in attribute values), and
  the round trip `read (serParts ps) = events ps`: **every text run, every element, every attribute comes back, once, in
  order, with the value the author wrote**, for every tree;
* the bridge: on trees whose edge texts carry no edge white space the Model is its core (`content_tidy`). -/
namespace Gomjml.Mixed
open Gomjml.Amp Gomjml.CharData

inductive Part (α : Type)
  | text (s : List B)
  | node (n : α)
deriving Repr

/-- an inline element: name, attributes in source order, mixed content -/
inductive Node
  | mk (name : List B) (attrs : List (List B × List B)) (parts : List (Part Node))
deriving Repr

/-! ### the serialiser -/

def quot : List B := [38, 113, 117, 111, 116, 59]      -- "&quot;"

/-- `strings.ReplaceAll(value, "\"", "&quot;")` -/
def escQB (b : B) : List B := if b == 34 then quot else [b]
def escQ (v : List B) : List B := v.flatMap escQB

def serAttrs : List (List B × List B) → List B
  | [] => []
  | (k, v) :: r => 32 :: (k ++ (61 :: 34 :: (escQ v ++ (34 :: serAttrs r))))

mutual
  /-- one inline element; a void element is written ` />` and its content is not looked at -/
  def serNode (void : List B → Bool) : Node → List B
    | .mk n a ps =>
      if void n then 60 :: (n ++ (serAttrs a ++ [32, 47, 62]))
      else 60 :: (n ++ (serAttrs a ++ (62 :: (serParts void ps ++ (60 :: 47 :: (n ++ [62]))))))
  def serParts (void : List B → Bool) : List (Part Node) → List B
    | [] => []
    | .text s :: r => escape s ++ serParts void r
    | .node n :: r => serNode void n ++ serParts void r
end

/-! ### the Model of `GetMixedContent`: the same with the trimming the Go code does -/

def asciiWs (b : B) : Bool := b == 32 || b == 10 || b == 13 || b == 9
/-- `strings.TrimLeft(s, " \n\r\t")` / `strings.TrimRight` -/
def trimL (s : List B) : List B := s.dropWhile asciiWs
def trimR (s : List B) : List B := (s.reverse.dropWhile asciiWs).reverse

/-- the loop over the parts: `i` = index of the head part, `n` = number of parts; `inner` = `GetMixedContent` of a child -/
def loop (void : List B → Bool) (inner : List (Part Node) → List B) : List (Part Node) → Nat → Nat → List B
  | [], _, _ => []
  | .text s :: r, i, n =>
    escape ((fun t => if i + 1 = n then trimR t else t) (if i = 0 then trimL s else s)) ++ loop void inner r (i + 1) n
  | .node (.mk nm a kids) :: r, i, n =>
    (if void nm then 60 :: (nm ++ (serAttrs a ++ [32, 47, 62]))
     else 60 :: (nm ++ (serAttrs a ++ (62 :: (inner kids ++ (60 :: 47 :: (nm ++ [62]))))))) ++ loop void inner r (i + 1) n

/-- `GetMixedContent` (fuel = nesting depth + 1): the loop, then `strings.TrimSpace` of the whole -/
def content (void : List B → Bool) : Nat → List (Part Node) → List B
  | 0, _ => []
  | fuel + 1, ps => Gomjml.InlineCss.trimSpace (loop void (content void fuel) ps 0 ps.length)

mutual
  def depthNode : Node → Nat
    | .mk _ _ ps => 1 + depthParts ps
  def depthParts : List (Part Node) → Nat
    | [] => 0
    | .text _ :: r => depthParts r
    | .node n :: r => max (depthNode n) (depthParts r)
end

/-! ### what is in a tree: the flat list of events, in document order -/

inductive Ev
  | text (s : List B)
  | opn (name : List B) (attrs : List (List B × List B))
  | cls (name : List B)
  | void (name : List B) (attrs : List (List B × List B))
deriving DecidableEq, Repr

mutual
  def evNode (void : List B → Bool) : Node → List Ev
    | .mk n a ps => if void n then [.void n a] else .opn n a :: (evParts void ps ++ [.cls n])
  def evParts (void : List B → Bool) : List (Part Node) → List Ev
    | [] => []
    | .text s :: r => .text s :: evParts void r
    | .node n :: r => evNode void n ++ evParts void r
end

/-! ### the reader -/

def untilB (stop : B → Bool) : List B → List B × List B
  | [] => ([], [])
  | b :: r => if stop b then ([], b :: r) else ((b :: (untilB stop r).1), (untilB stop r).2)

/-- a client's decoding of an attribute value: `&quot;` is a double quote -/
def unq : Nat → List B → List B
  | 0, s => s
  | _, [] => []
  | fuel + 1, b :: r => if quot.isPrefixOf (b :: r) then 34 :: unq fuel ((b :: r).drop 6) else b :: unq fuel r

/-- attributes up to the end of the start tag: ` key="value"` … then `>` or ` />` (the flag says which) -/
def readAttrs : Nat → List B → Option (List (List B × List B) × Bool × List B)
  | 0, _ => none
  | _ + 1, [] => none
  | fuel + 1, b :: r =>
    if b == 62 then some ([], false, r)
    else if b == 32 then
      if [47, 62].isPrefixOf r then some ([], true, r.drop 2)
      else
        match (untilB (· == 61) r).2 with
        | 61 :: 34 :: r2 =>
          match (untilB (· == 34) r2).2 with
          | 34 :: r4 =>
            match readAttrs fuel r4 with
            | some (as, vd, rr) =>
              some (((untilB (· == 61) r).1, unq (untilB (· == 34) r2).1.length (untilB (· == 34) r2).1) :: as, vd, rr)
            | none => none
          | _ => none
        | _ => none
    else none

def nameStop (b : B) : Bool := b == 32 || b == 62

/-- a start tag behind its `<` -/
def readOpen (r : List B) : Option (Ev × List B) :=
  match readAttrs ((untilB nameStop r).2.length + 1) (untilB nameStop r).2 with
  | some (a, vd, r2) => some (if vd then .void (untilB nameStop r).1 a else .opn (untilB nameStop r).1 a, r2)
  | none => none

/-- an end tag behind its `</` -/
def readClose (r : List B) : Option (Ev × List B) :=
  match (untilB (· == 62) r).2 with
  | 62 :: r2 => some (.cls (untilB (· == 62) r).1, r2)
  | _ => none

def readText (s : List B) : Option (Ev × List B) :=
  some (.text (unescape (untilB (· == 60) s).1.length (untilB (· == 60) s).1), (untilB (· == 60) s).2)

/-- one token from the front of the input -/
def readTok : List B → Option (Ev × List B)
  | [] => none
  | b :: r =>
    if b == 60 then
      match r with
      | [] => none
      | c :: r' => if c == 47 then readClose r' else readOpen (c :: r')
    else readText (b :: r)

/-- the whole input as a list of events -/
def read (s : List B) : Option (List Ev) :=
  if s = [] then some []
  else match readTok s with
    | some (e, r) => if r.length < s.length then (read r).map (e :: ·) else none
    | none => none
termination_by s.length

/-! ### well-formed trees: what the XML layer hands over -/

/-- an element name: not empty, does not start with `/`, no blank, no `>` -/
def wfName (n : List B) : Bool := n != [] && n.head? != some 47 && n.all (fun b => !nameStop b)
/-- an attribute name: does not start with `/`, no `=` -/
def wfKey (k : List B) : Bool := k.head? != some 47 && k.all (· != 61)
/-- an attribute value the round trip is claimed for: no ampersand (see `read_ser_value_counterexample`) -/
def wfVal (v : List B) : Bool := v.all (· != 38)
def wfAttrs (a : List (List B × List B)) : Bool := a.all fun kv => wfKey kv.1 && wfVal kv.2

mutual
  def wfNode : Node → Bool
    | .mk n a ps => wfName n && wfAttrs a && wfParts false ps
  /-- text runs are not empty and never adjacent (the parser merges adjacent character data); the flag: the previous part was text -/
  def wfParts : Bool → List (Part Node) → Bool
    | _, [] => true
    | prev, .text s :: r => !prev && s != [] && wfParts true r
    | _, .node n :: r => wfNode n && wfParts false r
end

mutual
  def szNode : Node → Nat
    | .mk _ _ ps => 1 + szParts ps
  def szParts : List (Part Node) → Nat
    | [] => 0
    | .text _ :: r => 1 + szParts r
    | .node n :: r => 1 + szNode n + szParts r
end

end Gomjml.Mixed
