import Gomjml.Core.Api
import Gomjml.Core.MapIter
/-! driver sub-protocols `api` (history of public calls → which results are the fresh ones) and `pick` (font lookup) -/
open Gomjml.Api

namespace Driver.ApiP

def parseCall (s : String) : Option Call :=
  if s.startsWith "R" then (s.drop 1).toNat?.map .render
  else if s.startsWith "W" then (s.drop 1).toNat?.map .renderWithAST
  else if s.startsWith "F" then (s.drop 1).toNat?.map .renderFromAST
  else if s.startsWith "N" then (s.drop 1).toNat?.map .newFromAST
  else if s.startsWith "T" then (s.drop 1).toNat?.map .renderTree
  else none

/-- concrete world: document d has attribute store `attrsOf[d]`; html encodes (d, gBuild, gRender) injectively;
    okbits: 1 = parses, 2 = parses but rendering fails, 0 = does not parse; valbits = has a validation error -/
def world (okbits valbits statebits : String) (attrsOf : List Nat) : World :=
  { parse := fun d => if (okbits.toList.getD d '0') == '1' || (okbits.toList.getD d '0') == '2' then .ok () else .error d,
    renderErr := fun d => if (okbits.toList.getD d '0') == '2' then some (d + 500) else none,   -- '2' = parses, rendering fails
    attrs := fun d => attrsOf.getD d 0,
    html := fun d gb gr seen => 1 + d * 10000 + gb * 100 + gr +
      (if (statebits.toList.getD d '0') == '1' && seen.length > 0 then 1000000 else 0) +
      (if seen.any (· != gb) then 2000000 else 0),
    validation := fun d => if (valbits.toList.getD d '0') == '1' then some d else none,
    reorder := id }

def showRes (w : World) (c : Call) (r : Res) : String :=
  -- "same" = equals what the call returns first in a fresh process; "stale:<gb>:<gr>" = a tree rendered with other stores
  let f := fresh w c
  match c, r with
  | .renderTree _, .ok h =>
    let tainted := h > 2000000
    let h := if tainted then h - 2000000 else h
    let again := h > 1000000
    let h := if again then h - 1000000 else h
    let d := (h - 1) / 10000; let gb := ((h - 1) % 10000) / 100; let gr := (h - 1) % 100
    if again then s!"tree-again:{d}"
    else if gb == w.attrs d && gr == w.attrs d && !tainted then s!"tree-own:{d}" else s!"tree-stale:{d}:{gb}:{gr}"
  | .renderTree _, .noSuchTree => "no-tree"
  | .renderTree _, .fail e => s!"tree-fail:{e - 500}"        -- rendering this tree's document fails (renderErr d = d + 500)
  | _, r => if r == f then "same" else "DIFFERENT"

def handle (args : List String) : String :=
  match args with
  | okbits :: valbits :: statebits :: ats :: calls =>
    let attrsOf := (ats.splitOn ",").filterMap String.toNat?
    let w := world okbits valbits statebits attrsOf
    Id.run do
      let mut s := init
      let mut out : Array String := #[]
      for cs in calls do
        match parseCall cs with
        | none => out := out.push "bad-call"
        | some c =>
          let r := step w s c
          s := r.1
          out := out.push (showRes w c r.2)
      return " ".intercalate out.toList
  | _ => "bad-request"

/-- `pick n:idx:len:url …` (idx = `-` when the name does not occur) → chosen url or `-` -/
def pickHandle (args : List String) : String :=
  let es := args.filterMap (fun a =>
    match a.splitOn ":" with
    | [n, i, l, u] =>
      match n.toNat?, l.toNat?, u.toNat? with
      | some n, some l, some u => some (⟨n, i.toNat?, l, u⟩ : Gomjml.MapIter.FEntry)
      | _, _, _ => none
    | _ => none)
  match Gomjml.MapIter.pick es with
  | some u => toString u
  | none => "-"

end Driver.ApiP
