import Gomjml.Props.C08
#print axioms Gomjml.Props.C08.C08_history_independent
#print axioms Gomjml.Props.C08.C08_paths_agree
#print axioms Gomjml.Props.C08.C08_step_by_step
#print axioms Gomjml.Props.C08.C08_tree_history_independent
#print axioms Gomjml.Props.C08.C08_tree_own_store
#print axioms Gomjml.Props.C08.C08_history_carriers
