/-! # The document's attribute store (`mjml/globals/attributes.go`): mj-all, per-tag defaults, mj-class definitions

`ProcessAttributesFromHead` walks the `mj-attributes` blocks of the head in document order and writes every attribute of every
child into one of three tables (Go maps; here association lists with the same `m[k] = v` semantics).  The Spec is what an
author expects: **the last definition in document order wins, attribute by attribute** — other attributes of earlier
definitions stay.  Tied to the implementation by the correspondence run `store` of `hx C09` (the real store, built from parsed
heads, asked for every (tag / class, attribute) it could know). -/
namespace Gomjml.Store

abbrev Attrs := List (String × String)

/-- a child of `mj-attributes` -/
inductive Entry
  | all (as : Attrs)
  | cls (as : Attrs)                 -- mj-class, `name` among the attributes
  | tag (name : String) (as : Attrs)
deriving Repr

/-! ### Go's `m[k] = v` / `m[k]` on an association list -/

def set : Attrs → String → String → Attrs
  | [], k, v => [(k, v)]
  | (k', v') :: r, k, v => if k' = k then (k, v) :: r else (k', v') :: set r k v

def get : Attrs → String → Option String
  | [], _ => none
  | (k', v') :: r, k => if k' = k then some v' else get r k

theorem get_set (m : Attrs) (k v k' : String) : get (set m k v) k' = if k' = k then some v else get m k' := by
  induction m with
  | nil =>
    by_cases h : k' = k
    · simp [set, get, h]
    · have h' : ¬ k = k' := fun e => h e.symm
      simp [set, get, h, h']
  | cons p r ih =>
    obtain ⟨a, b⟩ := p
    unfold set
    by_cases hak : a = k
    · subst hak
      by_cases h : k' = a
      · subst h; simp [get]
      · have h' : ¬ a = k' := fun e => h e.symm
        simp [get, h, h']
    · simp only [hak, if_false]
      by_cases h : k' = k
      · subst h
        have : ¬ a = k' := hak
        simp [get, this, ih]
      · by_cases ha : a = k'
        · subst ha; simp [get, h]
        · simp [get, ha, ih, h]

/-- writing a list of attributes, in order -/
def setAll (m : Attrs) (as : Attrs) : Attrs := as.foldl (fun acc kv => set acc kv.1 kv.2) m

/-- the last definition of `a` in a list of (attribute, value) pairs -/
def lastDef (defs : Attrs) (a : String) : Option String := (defs.reverse.find? (fun kv => kv.1 = a)).map (·.2)

theorem lastDef_append (x y : Attrs) (a : String) : lastDef (x ++ y) a = (lastDef y a).orElse (fun _ => lastDef x a) := by
  unfold lastDef
  rw [List.reverse_append, List.find?_append]
  cases h : List.find? (fun kv => kv.1 = a) y.reverse <;> simp

theorem lastDef_single (k v a : String) : lastDef [(k, v)] a = if a = k then some v else none := by
  unfold lastDef
  by_cases h : a = k
  · subst h; simp
  · have : ¬ k = a := fun e => h e.symm
    simp [h, this]

/-- **a table after a sequence of writes holds, per attribute, the last value written** (or what it held before) -/
theorem get_setAll : ∀ (as : Attrs) (m : Attrs) (a : String), get (setAll m as) a = (lastDef as a).orElse (fun _ => get m a)
  | [], m, a => by simp [setAll, lastDef]
  | (k, v) :: r, m, a => by
    have ih := get_setAll r (set m k v) a
    unfold setAll at ih ⊢
    simp only [List.foldl_cons]
    rw [ih, get_set]
    rw [show ((k, v) :: r : Attrs) = [(k, v)] ++ r from rfl, lastDef_append, lastDef_single]
    cases lastDef r a with
    | some x => simp
    | none => by_cases h : a = k <;> simp [h]

/-! ### the store -/

structure Store where
  all : Attrs
  tags : List (String × Attrs)
  classes : List (String × Attrs)
deriving Repr

/-- the table of one key in a list of named tables (`m[key]`, nil when absent) -/
def table (ts : List (String × Attrs)) (key : String) : Attrs :=
  match ts with
  | [] => []
  | (k, t) :: r => if k = key then t else table r key

/-- replace / create the table of one key -/
def putTable : List (String × Attrs) → String → Attrs → List (String × Attrs)
  | [], key, t => [(key, t)]
  | (k, t') :: r, key, t => if k = key then (k, t) :: r else (k, t') :: putTable r key t

theorem table_putTable (ts : List (String × Attrs)) (key : String) (t : Attrs) (key' : String) :
    table (putTable ts key t) key' = if key' = key then t else table ts key' := by
  induction ts with
  | nil =>
    by_cases h : key' = key
    · simp [putTable, table, h]
    · have h' : ¬ key = key' := fun e => h e.symm
      simp [putTable, table, h, h']
  | cons p r ih =>
    obtain ⟨k, t'⟩ := p
    unfold putTable
    by_cases hk : k = key
    · subst hk
      by_cases h : key' = k
      · subst h; simp [table]
      · have : ¬ k = key' := fun e => h e.symm
        simp [table, h, this]
    · simp only [hk, if_false]
      by_cases h : key' = key
      · subst h
        have : ¬ k = key' := hk
        simp [table, this, ih]
      · by_cases hk' : k = key'
        · subst hk'; simp [table, h]
        · simp [table, hk', ih, h]

/-- the class name: the value of the first `name` attribute ("" when there is none) -/
def className (as : Attrs) : String := ((as.find? (fun kv => kv.1 = "name")).map (·.2)).getD ""

/-- an mj-class child: without a name it defines nothing -/
def stepCls (s : Store) (as : Attrs) : Store :=
  if className as = "" then s
  else { s with classes := putTable s.classes (className as) (setAll (table s.classes (className as)) (as.filter (fun kv => kv.1 ≠ "name"))) }

theorem stepCls_all (s : Store) (as : Attrs) : (stepCls s as).all = s.all := by unfold stepCls; split <;> rfl
theorem stepCls_tags (s : Store) (as : Attrs) : (stepCls s as).tags = s.tags := by unfold stepCls; split <;> rfl

/-- `processAttributesElement` for one child -/
def step (s : Store) : Entry → Store
  | .all as => { s with all := setAll s.all as }
  | .tag n as => { s with tags := putTable s.tags n (setAll (table s.tags n) as) }
  | .cls as => stepCls s as

/-- `ProcessAttributesFromHead`: every child of every `mj-attributes` block, in document order -/
def build (blocks : List (List Entry)) : Store := blocks.flatten.foldl step ⟨[], [], []⟩

/-- `GetGlobalAttribute` -/
def globalAttr (s : Store) (tag a : String) : String :=
  match get (table s.tags tag) a with
  | some v => v
  | none => (get s.all a).getD ""

/-- `GetClassAttribute` -/
def classAttr (s : Store) (c a : String) : String := (get (table s.classes c) a).getD ""

/-! ### the Spec: definitions in document order -/

def allDefs : List Entry → Attrs
  | [] => []
  | .all as :: r => as ++ allDefs r
  | _ :: r => allDefs r

def tagDefs (t : String) : List Entry → Attrs
  | [] => []
  | .tag n as :: r => if n = t then as ++ tagDefs t r else tagDefs t r
  | _ :: r => tagDefs t r

def classDefs (c : String) : List Entry → Attrs
  | [] => []
  | .cls as :: r => if className as = c ∧ c ≠ "" then as.filter (fun kv => kv.1 ≠ "name") ++ classDefs c r else classDefs c r
  | _ :: r => classDefs c r

theorem get_setAll' (as m : Attrs) (a : String) : get (setAll m as) a = (lastDef as a).orElse (fun _ => get m a) := get_setAll as m a

/-- the three tables after any prefix of the entries, described by the definitions seen so far -/
theorem fold_spec : ∀ (es : List Entry) (s : Store) (a : String),
    get (es.foldl step s).all a = (lastDef (allDefs es) a).orElse (fun _ => get s.all a) ∧
    (∀ t, get (table (es.foldl step s).tags t) a = (lastDef (tagDefs t es) a).orElse (fun _ => get (table s.tags t) a)) ∧
    (∀ c, get (table (es.foldl step s).classes c) a = (lastDef (classDefs c es) a).orElse (fun _ => get (table s.classes c) a))
  | [], s, a => by simp [allDefs, tagDefs, classDefs, lastDef]
  | e :: r, s, a => by
    have ih := fold_spec r (step s e) a
    simp only [List.foldl_cons]
    obtain ⟨ih1, ih2, ih3⟩ := ih
    cases e with
    | all as =>
      refine ⟨?_, ?_, ?_⟩
      · rw [ih1]; simp only [step, allDefs, get_setAll', lastDef_append]
        cases lastDef (allDefs r) a <;> simp
      · intro t; rw [ih2 t]; simp [step, tagDefs]
      · intro c; rw [ih3 c]; simp [step, classDefs]
    | tag n as =>
      refine ⟨?_, ?_, ?_⟩
      · rw [ih1]; simp [step, allDefs]
      · intro t; rw [ih2 t]
        simp only [step, tagDefs, table_putTable]
        by_cases h : t = n
        · subst h
          simp only [if_true, get_setAll', lastDef_append]
          cases lastDef (tagDefs t r) a <;> simp
        · have h' : ¬ n = t := fun e => h e.symm
          simp [h, h']
      · intro c; rw [ih3 c]; simp [step, classDefs]
    | cls as =>
      refine ⟨?_, ?_, ?_⟩
      · rw [ih1]; simp [step, stepCls_all, allDefs]
      · intro t; rw [ih2 t]; simp [step, stepCls_tags, tagDefs]
      · intro c; rw [ih3 c]
        simp only [step]
        unfold stepCls
        by_cases hn : className as = ""
        · simp only [hn, if_true, classDefs]
          have : ¬ ("" = c ∧ c ≠ "") := by intro ⟨h1, h2⟩; exact h2 h1.symm
          simp
        · simp only [hn, if_false, table_putTable]
          by_cases h : c = className as
          · subst h
            have hd : classDefs (className as) (Entry.cls as :: r) =
                as.filter (fun kv => kv.1 ≠ "name") ++ classDefs (className as) r := by
              simp [classDefs, hn]
            rw [hd]
            simp only [if_true, get_setAll', lastDef_append]
            cases lastDef (classDefs (className as) r) a <;> simp
          · have h' : ¬ (className as = c ∧ c ≠ "") := fun ⟨e, _⟩ => h e.symm
            have hd : classDefs c (Entry.cls as :: r) = classDefs c r := by
              simp only [classDefs]; rw [if_neg (by simpa using h')]
            rw [hd]
            simp [h]

/-- **the store is the Spec**: whatever the head defines, in however many blocks and entries, each lookup returns the last
    definition of that attribute in document order — for the tag if there is one, else for mj-all -/
theorem build_spec (blocks : List (List Entry)) (t c a : String) :
    globalAttr (build blocks) t a = ((lastDef (tagDefs t blocks.flatten) a).orElse (fun _ => lastDef (allDefs blocks.flatten) a)).getD "" ∧
    classAttr (build blocks) c a = (lastDef (classDefs c blocks.flatten) a).getD "" := by
  obtain ⟨h1, h2, h3⟩ := fold_spec blocks.flatten ⟨[], [], []⟩ a
  unfold globalAttr classAttr build
  rw [h2 t, h1, h3 c]
  simp only [table, get]
  constructor
  · cases lastDef (tagDefs t blocks.flatten) a <;> cases lastDef (allDefs blocks.flatten) a <;> simp
  · cases lastDef (classDefs c blocks.flatten) a <;> simp

end Gomjml.Store
