import Gomjml.Core.Passes
/-! CDATA round trip (C04 / C18): whatever bytes an author writes inside `mj-text` — including `]]>` — the XML layer gives
    back exactly those bytes after `wrapMJTextContent`'s escaping (`strings.ReplaceAll(inner, "]]>", "]]]]><![CDATA[>")`
    wrapped in `<![CDATA[` … `]]>`).  `decodeBody` is the XML layer's reading of character data made of consecutive CDATA
    sections (position: just after a `<![CDATA[`). -/
namespace Gomjml.Passes
open Gomjml.Amp

/-- does the text start with `]]>` ? (depends on the first byte and the two after it) -/
def pre3 : List B → Bool
  | a :: b :: c :: _ => a == 93 && b == 93 && c == 62
  | _ => false

/-- does the text start with `<![CDATA[` ? -/
def pre9 : List B → Bool
  | a1 :: a2 :: a3 :: a4 :: a5 :: a6 :: a7 :: a8 :: a9 :: _ =>
    a1 == 60 && a2 == 33 && a3 == 91 && a4 == 67 && a5 == 68 && a6 == 65 && a7 == 84 && a8 == 65 && a9 == 91
  | _ => false

/-- `strings.ReplaceAll(s, "]]>", "]]]]><![CDATA[>")` -/
def Rr (s : List B) : List B :=
  match s with
  | [] => []
  | b :: t => if pre3 (b :: t) then cdEndSafe ++ Rr (t.drop 2) else b :: Rr t
termination_by s.length
decreasing_by
  · simp only [List.length_drop, List.length_cons]; omega
  · simp

def decodeBody (s : List B) : Option (List B) :=
  match s with
  | [] => none                                            -- unterminated section
  | b :: t =>
    if pre3 (b :: t) then
      (if (t.drop 2).isEmpty then some []
       else if pre9 (t.drop 2) then decodeBody ((t.drop 2).drop 9) else none)
    else (decodeBody t).map (b :: ·)
termination_by s.length
decreasing_by
  · simp only [List.length_drop, List.length_cons]; omega
  · simp

/-- `wrapMJTextContent`'s wrapping of one mj-text body -/
def cdataWrap' (inner : List B) : List B := cdStart ++ Rr inner ++ cdEnd

/-- what the XML decoder returns for that text -/
def cdataDecode (s : List B) : Option (List B) := if pre9 s then decodeBody (s.drop 9) else none

theorem Rr_nil : Rr [] = [] := by rw [Rr]
theorem Rr_cons (b : B) (t : List B) :
    Rr (b :: t) = if pre3 (b :: t) then cdEndSafe ++ Rr (t.drop 2) else b :: Rr t := by rw [Rr]
theorem decodeBody_cons (b : B) (t : List B) :
    decodeBody (b :: t) = if pre3 (b :: t) then
      (if (t.drop 2).isEmpty then some []
       else if pre9 (t.drop 2) then decodeBody ((t.drop 2).drop 9) else none)
    else (decodeBody t).map (b :: ·) := by rw [decodeBody]

theorem pre3_shape (s : List B) (h : pre3 s = true) : ∃ t, s = 93 :: 93 :: 62 :: t := by
  match s, h with
  | a :: b :: c :: t, h =>
    simp [pre3] at h
    obtain ⟨⟨h1, h2⟩, h3⟩ := h
    exact ⟨t, by rw [h1, h2, h3]⟩

/-- `pre3 (b :: x)` looks at `b` and at the first two bytes of `x` only -/
theorem pre3_take2 (b : B) (x y : List B) (h : x.take 2 = y.take 2) : pre3 (b :: x) = pre3 (b :: y) := by
  match x, y, h with
  | [], [], _ => rfl
  | [], [_], h => simp at h
  | [], _ :: _ :: _, h => simp at h
  | [_], [], h => simp at h
  | [a], [c], h => simp at h; subst h; rfl
  | [_], _ :: _ :: _, h => simp at h
  | _ :: _ :: _, [], h => simp at h
  | _ :: _ :: _, [_], h => simp at h
  | a :: a' :: _, c :: c' :: _, h => simp at h; obtain ⟨rfl, rfl⟩ := h; rfl

/-- escaping never changes the first two bytes of what follows -/
theorem take1_Rr (x y : List B) (hy : y ≠ []) : (Rr x ++ y).take 1 = (x ++ y).take 1 := by
  cases x with
  | nil => rw [Rr_nil]
  | cons a t =>
    rw [Rr_cons]
    split
    · rename_i h
      obtain ⟨t', ht'⟩ := pre3_shape _ h
      simp only [List.cons.injEq] at ht'
      rw [ht'.1]; simp [cdEndSafe]
    · simp

theorem take2_Rr (x y : List B) (hy : 2 ≤ y.length) : (Rr x ++ y).take 2 = (x ++ y).take 2 := by
  have hy0 : y ≠ [] := by intro e; subst e; simp at hy
  cases x with
  | nil => rw [Rr_nil]
  | cons a t =>
    rw [Rr_cons]
    split
    · rename_i h
      obtain ⟨t', ht'⟩ := pre3_shape _ h
      simp only [List.cons.injEq] at ht'
      rw [ht'.1, ht'.2]; simp [cdEndSafe]
    · simp only [List.cons_append, List.take_succ_cons]
      congr 1
      exact take1_Rr t y hy0

/-- a position that is not the start of `]]>` in the text is not the start of `]]>` in the escaped text either -/
theorem noprefix_preserved (b : B) (t : List B) (h : pre3 (b :: t) = false) : pre3 (b :: (Rr t ++ cdEnd)) = false := by
  rw [pre3_take2 b (Rr t ++ cdEnd) (t ++ cdEnd) (take2_Rr t cdEnd (by simp [cdEnd]))]
  match t, h with
  | [], _ => simp [pre3, cdEnd]
  | [c], _ => simp [pre3, cdEnd]
  | c :: d :: r, h => simpa [pre3] using h

/-- **CDATA round trip**, for every byte string -/
theorem decodeBody_Rr : ∀ (n : Nat) (s : List B), s.length ≤ n → decodeBody (Rr s ++ cdEnd) = some s := by
  intro n
  induction n with
  | zero =>
    intro s hs
    have : s = [] := by cases s <;> simp_all
    subst this
    rw [Rr_nil]
    simp only [List.nil_append, cdEnd]
    rw [decodeBody_cons]; simp [pre3]
  | succ n ih =>
    intro s hs
    cases s with
    | nil =>
      rw [Rr_nil]
      simp only [List.nil_append, cdEnd]
      rw [decodeBody_cons]; simp [pre3]
    | cons b t =>
      rw [Rr_cons]
      by_cases hp : pre3 (b :: t) = true
      · obtain ⟨s', hs'⟩ := pre3_shape _ hp
        simp only [List.cons.injEq] at hs'
        obtain ⟨hb, ht⟩ := hs'
        subst hb; subst ht
        simp only [hp, if_true, List.drop_succ_cons, List.drop_zero]
        -- "]]]]>" ++ "<![CDATA[" ++ ">" ++ Rr s' ++ "]]>"
        have hlen : ((62 : B) :: s').length ≤ n := by simp at hs ⊢; omega
        have ih' := ih ((62 : B) :: s') hlen
        rw [Rr_cons] at ih'
        have hgt : pre3 ((62 : B) :: s') = false := by
          match s' with
          | [] => rfl
          | [_] => rfl
          | _ :: _ :: _ => simp [pre3]
        simp only [hgt, Bool.false_eq_true, if_false, List.cons_append] at ih'
        simp only [cdEndSafe, cdStart, List.cons_append, List.nil_append, List.append_assoc]
        rw [decodeBody_cons]
        simp only [pre3, show ((93 : B) == 93 && (93 : B) == 93 && (93 : B) == 62) = false by decide, Bool.false_eq_true, if_false]
        rw [decodeBody_cons]
        simp only [pre3, show ((93 : B) == 93 && (93 : B) == 93 && (93 : B) == 62) = false by decide, Bool.false_eq_true, if_false]
        rw [decodeBody_cons]
        simp only [pre3, show ((93 : B) == 93 && (93 : B) == 93 && (62 : B) == 62) = true by decide, if_true,
          List.drop_succ_cons, List.drop_zero, List.isEmpty_cons, Bool.false_eq_true, if_false, pre9]
        simp only [show ((60 : B) == 60 && (33 : B) == 33 && (91 : B) == 91 && (67 : B) == 67 && (68 : B) == 68 && (65 : B) == 65 &&
          (84 : B) == 84 && (65 : B) == 65 && (91 : B) == 91) = true by decide, if_true]
        rw [ih']
        rfl
      · have hp' : pre3 (b :: t) = false := Bool.eq_false_iff.mpr hp
        simp only [hp', Bool.false_eq_true, if_false, List.cons_append]
        rw [decodeBody_cons]
        simp only [noprefix_preserved b t hp', Bool.false_eq_true, if_false]
        rw [ih t (by simp at hs; omega)]
        rfl

theorem cdata_roundtrip (inner : List B) : cdataDecode (cdataWrap' inner) = some inner := by
  unfold cdataDecode cdataWrap'
  have h : pre9 (cdStart ++ Rr inner ++ cdEnd) = true := by simp [cdStart, pre9]
  rw [if_pos h]
  have hd : (cdStart ++ Rr inner ++ cdEnd).drop 9 = Rr inner ++ cdEnd := by simp [cdStart]
  rw [hd]
  exact decodeBody_Rr inner.length inner (Nat.le_refl _)

/-- non-vacuity / sanity: a body that contains the terminator, twice, and ends in a half terminator -/
example : cdataDecode (cdataWrap' [97, 93, 93, 62, 93, 93, 93, 62, 98, 93, 93]) = some [97, 93, 93, 62, 93, 93, 93, 62, 98, 93, 93] :=
  cdata_roundtrip _

end Gomjml.Passes
