import Gomjml.Props.C04
#print axioms Gomjml.Props.C04.C04_once
#print axioms Gomjml.Props.C04.C04_visible_full
