package main

import (
	"bufio"
	"crypto/sha256"
	"encoding/hex"
	"encoding/json"
	"fmt"
	"io"
	"os"
	"os/exec"
	"path/filepath"
	"regexp"
	"sort"
	"strings"
	"sync"
)

// ---- result protocol between hx and ./check ---------------------------------------------------

// Violation: the implementation fails the Spec on a concrete input (Kind/Sig are matched against
// known_findings.txt).  Disagreement: Lean Model and implementation differ on a concrete input.
type Violation struct {
	Sig   string      `json:"sig"`
	Kind  string      `json:"kind"`
	What  string      `json:"what"`
	Input interface{} `json:"input,omitempty"`
	Extra interface{} `json:"extra,omitempty"`
}

type Result struct {
	Property             string         `json:"property"`
	Tier                 string         `json:"tier"`
	Seed                 int64          `json:"seed"`
	Evaluations          int            `json:"evaluations"`
	Distinct             int            `json:"distinct_nontrivial"`
	Rule                 string         `json:"rule"`
	Samples              []interface{}  `json:"samples"`
	Programs             int            `json:"programs"`
	DisagreementsChecked int            `json:"disagreements_checked"`
	Exhaustive           bool           `json:"exhaustive"`
	Violations           []Violation    `json:"violations"`
	Disagreements        []Violation    `json:"disagreements"`
	Dist                 map[string]int `json:"distribution"`
	Notes                []string       `json:"notes"`

	mu         sync.Mutex
	distinct   map[string]bool
	vseen      map[string]bool
	classCount map[string]int
}

func newResult(prop, tier string, seed int64) *Result {
	return &Result{Property: prop, Tier: tier, Seed: seed, Dist: map[string]int{}, distinct: map[string]bool{}, vseen: map[string]bool{},
		Violations: []Violation{}, Disagreements: []Violation{}, Samples: []interface{}{}, Notes: []string{}}
}

// Case records one evaluated case; key identifies it for the distinct count; nontrivial by the caller's rule.
func (r *Result) Case(key string, nontrivial bool) {
	r.mu.Lock()
	defer r.mu.Unlock()
	r.Evaluations++
	if nontrivial {
		h := sha256.Sum256([]byte(key))
		k := string(h[:8])
		if !r.distinct[k] {
			r.distinct[k] = true
			r.Distinct++
		}
	}
}

func (r *Result) Count(k string) {
	r.mu.Lock()
	r.Dist[k]++
	r.mu.Unlock()
}

func (r *Result) Sample(s interface{}) {
	r.mu.Lock()
	if len(r.Samples) < 6 {
		r.Samples = append(r.Samples, s)
	}
	r.mu.Unlock()
}

func (r *Result) Violate(v Violation) {
	r.mu.Lock()
	defer r.mu.Unlock()
	if r.vseen["v|"+v.Sig] {
		return
	}
	r.vseen["v|"+v.Sig] = true
	// at most 12 reports per failing clause (the part of the signature before the first '|'): one defect usually fails on
	// thousands of histories / documents, the first few are enough to replay it
	cls := "n|" + strings.SplitN(v.Sig, "|", 2)[0]
	r.Dist["violations:"+strings.SplitN(v.Sig, "|", 2)[0]]++
	if r.classCount == nil {
		r.classCount = map[string]int{}
	}
	r.classCount[cls]++
	if r.classCount[cls] > 12 {
		return
	}
	r.Violations = append(r.Violations, v)
}

func (r *Result) Disagree(v Violation) {
	r.mu.Lock()
	defer r.mu.Unlock()
	if r.vseen["d|"+v.Sig] {
		return
	}
	r.vseen["d|"+v.Sig] = true
	if len(r.Disagreements) < 50 {
		r.Disagreements = append(r.Disagreements, v)
	}
}

func (r *Result) Note(f string, a ...interface{}) {
	r.mu.Lock()
	r.Notes = append(r.Notes, fmt.Sprintf(f, a...))
	r.mu.Unlock()
}

func (r *Result) write(path string) {
	sort.Slice(r.Violations, func(i, j int) bool { return r.Violations[i].Sig < r.Violations[j].Sig })
	b, err := json.MarshalIndent(r, "", " ")
	if err != nil {
		panic(err)
	}
	if path == "" || path == "-" {
		os.Stdout.Write(b)
		return
	}
	if err := os.WriteFile(path, b, 0o644); err != nil {
		panic(err)
	}
}

// ---- deterministic PRNG (splitmix64): every random choice derives from VERIF_SEED ---------------------

type Rng struct{ s uint64 }

func NewRng(seed int64, stream string) *Rng {
	h := sha256.Sum256([]byte(fmt.Sprintf("%d/%s", seed, stream)))
	var s uint64
	for i := 0; i < 8; i++ {
		s = s<<8 | uint64(h[i])
	}
	return &Rng{s}
}

func (r *Rng) U64() uint64 {
	r.s += 0x9e3779b97f4a7c15
	z := r.s
	z = (z ^ (z >> 30)) * 0xbf58476d1ce4e5b9
	z = (z ^ (z >> 27)) * 0x94d049bb133111eb
	return z ^ (z >> 31)
}
func (r *Rng) Intn(n int) int {
	if n <= 0 {
		return 0
	}
	return int(r.U64() % uint64(n))
}
func (r *Rng) Bool(pNum, pDen int) bool { return r.Intn(pDen) < pNum }
func (r *Rng) Pick(xs []string) string  { return xs[r.Intn(len(xs))] }
func (r *Rng) Perm(n int) []int {
	p := make([]int, n)
	for i := range p {
		p[i] = i
	}
	for i := n - 1; i > 0; i-- {
		j := r.Intn(i + 1)
		p[i], p[j] = p[j], p[i]
	}
	return p
}

// ---- fixtures --------------------------------------------------------------------------------

type Fixture struct {
	Name string
	MJML string
	HTML string // reference output ("" when absent)
}

func repoDir() string {
	if d := os.Getenv("VERIF_REPO"); d != "" {
		return d
	}
	return "/repo"
}

func loadFixtures() []Fixture {
	dir := filepath.Join(repoDir(), "mjml", "testdata")
	ents, err := os.ReadDir(dir)
	if err != nil {
		return nil
	}
	var out []Fixture
	for _, e := range ents {
		if !strings.HasSuffix(e.Name(), ".mjml") {
			continue
		}
		name := strings.TrimSuffix(e.Name(), ".mjml")
		src, err := os.ReadFile(filepath.Join(dir, e.Name()))
		if err != nil {
			continue
		}
		ref, _ := os.ReadFile(filepath.Join(dir, name+".html"))
		out = append(out, Fixture{name, string(src), string(ref)})
	}
	sort.Slice(out, func(i, j int) bool { return out[i].Name < out[j].Name })
	return out
}

// ---- the Lean driver as a line-protocol subprocess ----------------------------------------------

type Driver struct {
	cmd *exec.Cmd
	in  io.WriteCloser
	out *bufio.Reader
	mu  sync.Mutex
}

func driverPath() string {
	if p := os.Getenv("VERIF_DRIVER"); p != "" {
		return p
	}
	return "/verif/lean/.lake/build/bin/driver"
}

func startDriver() (*Driver, error) {
	cmd := exec.Command(driverPath())
	in, err := cmd.StdinPipe()
	if err != nil {
		return nil, err
	}
	out, err := cmd.StdoutPipe()
	if err != nil {
		return nil, err
	}
	cmd.Stderr = os.Stderr
	if err := cmd.Start(); err != nil {
		return nil, err
	}
	return &Driver{cmd: cmd, in: in, out: bufio.NewReaderSize(out, 1<<20)}, nil
}

// Ask sends one request line and reads one response line.
func (d *Driver) Ask(line string) (string, error) {
	d.mu.Lock()
	defer d.mu.Unlock()
	if _, err := io.WriteString(d.in, line+"\n"); err != nil {
		return "", err
	}
	resp, err := d.out.ReadString('\n')
	if err != nil {
		return "", fmt.Errorf("driver: %v", err)
	}
	return strings.TrimRight(resp, "\n"), nil
}

func (d *Driver) Close() {
	d.in.Close()
	d.cmd.Wait()
}

// DriverPool answers requests concurrently with n driver processes.
type DriverPool struct{ ch chan *Driver }

func startDriverPool(n int) (*DriverPool, error) {
	p := &DriverPool{ch: make(chan *Driver, n)}
	for i := 0; i < n; i++ {
		d, err := startDriver()
		if err != nil {
			return nil, err
		}
		p.ch <- d
	}
	return p, nil
}
func (p *DriverPool) Ask(line string) (string, error) {
	d := <-p.ch
	defer func() { p.ch <- d }()
	return d.Ask(line)
}
func (p *DriverPool) Close() {
	close(p.ch)
	for d := range p.ch {
		d.Close()
	}
}

func hexOf(s string) string { return hex.EncodeToString([]byte(s)) }

// ---- small helpers ------------------------------------------------------------------------------

var hexID = regexp.MustCompile(`\b[0-9a-f]{16}\b`)

// alphaIDs α-renames the 16-hex generated identifiers (carousel, navbar) in order of first appearance.
func alphaIDs(s string) string {
	m := map[string]string{}
	return hexID.ReplaceAllStringFunc(s, func(id string) string {
		if v, ok := m[id]; ok {
			return v
		}
		v := fmt.Sprintf("ID%014d", len(m))
		m[id] = v
		return v
	})
}

func firstDiff(a, b string) int {
	n := len(a)
	if len(b) < n {
		n = len(b)
	}
	for i := 0; i < n; i++ {
		if a[i] != b[i] {
			return i
		}
	}
	if len(a) != len(b) {
		return n
	}
	return -1
}

func around(s string, i int) string {
	lo := i - 40
	if lo < 0 {
		lo = 0
	}
	hi := i + 40
	if hi > len(s) {
		hi = len(s)
	}
	return s[lo:hi]
}

func short(s string, n int) string {
	if len(s) <= n {
		return s
	}
	return s[:n] + "…"
}

func parallel(n int, jobs int, fn func(i int)) {
	var wg sync.WaitGroup
	ch := make(chan int)
	for w := 0; w < n; w++ {
		wg.Add(1)
		go func() {
			defer wg.Done()
			for i := range ch {
				fn(i)
			}
		}()
	}
	for i := 0; i < jobs; i++ {
		ch <- i
	}
	close(ch)
	wg.Wait()
}
