import Gomjml.Core.LayoutSpec
import Gomjml.Core.LayoutCount
import Gomjml.Core.LayoutStd
import Gomjml.Core.CharData
import Gomjml.Core.LayoutLeaves
import Gomjml.Core.MixedProofs
import Gomjml.Core.TextFlow
import Gomjml.Core.TextVoid
import Gomjml.Core.WrapDeliver
/-! # C04 — content fidelity: author content appears once, in order, as authored (property theorems only)

Layout part, on the skeleton model (`t` = one content slot; the combined machine rejects `t` inside an Outlook
conditional).  The character-data / markup half of the property lives in the parser pipeline (see C18) and is judged on
the real bytes by the content matrix of the harness. -/
namespace Gomjml.Props.C04
open Gomjml.Layout Gomjml.Spec

/-- **exactly once**, for EVERY document (no side condition): the skeleton contains as many content tokens as the document
    has content slots — nothing is dropped, nothing duplicated, whatever the flags and the nesting -/
theorem C04_once (bs : List Block) : cnt (render bs) = (bs.map Block.slots).sum := content_count bs

/-- non-vacuity for `C04_once`: a document with five content slots -/
example : cnt (render [.section ⟨false, true, false, false, false, false, [.col ⟨true, [.text, .raw]⟩, .group [.col ⟨false, [.text]⟩, .raw false]]⟩,
                       .wrapper ⟨true, false, [.raw true, .sec ⟨true, false, false, true, false, false, []⟩]⟩]) = 5 := by decide

/-- **never only inside an Outlook-only comment — the full statement, for EVERY document of the layout grammar**: no content
    token sits in an Outlook conditional, whatever the wrappers contain.  No side condition. -/
theorem C04_visible_full (bs : List Block) : Visible ((render bs).map Tok.toG) := (std_spec_all bs).2

/-- the formerly failing shape: raw content between two sections is visible now -/
example : Visible ((render [.section ⟨false, false, false, false, false, false, []⟩, .raw false,
                            .section ⟨false, false, false, false, false, false, []⟩]).map Tok.toG) := by
  unfold Visible; decide

/-! ### with the content components filled in -/
open Gomjml.LayoutLeaves Gomjml.Leaves in
/-- **never only inside an Outlook-only comment, with real components**: in every document no author content — button label,
    table cell, social element text, navbar link, accordion title / text — sits inside an Outlook conditional (the only text the
    components write there is generated: the divider's `&nbsp;`) -/
theorem C04_visible_components (d : Doc) : Visible d.render := (doc_spec d).2.2

open Gomjml.LayoutLeaves Gomjml.Leaves in
/-- **exactly once, with real components**: a document that names a component for every slot renders exactly as many author
    content tokens as its components have content slots (one per table cell, per social element with icon and text, per
    navbar link / accordion title / accordion text with content, …) -/
theorem C04_once_components (d : Doc) (h : d.Complete) : cntT d.render = (d.fills.map LeafM.slots).sum := doc_count d h

open Gomjml.Leaves in
/-- what was lost before the repairs (4c37da2, 4409645, 9f5d395, 24c6f9e, 0b2b55c) and is kept now: the text of a social
    element without a known network, every title and text of an accordion element (not only the last of each kind), raw content
    between the children of social / navbar / accordion / accordion element -/
example : cntT (LeafM.social false [.el ⟨true, true⟩, .raw false]).toks = 2 ∧
          cntT (LeafM.accordion [.el ⟨false, [.title true, .title true, .text true, .raw false]⟩, .raw false]).toks = 5 ∧
          cntT (LeafM.navbar false [.raw false, .link true, .raw false]).toks = 3 := by decide

/-! ### as authored: character data on the way out (`parser.EscapeCharData`, used by every slot that re-serialises decoded text) -/

/-- **what the author wrote is what the client shows**: a client that decodes the escaped text once gets the author's text back,
    whatever it contains — markup characters, text that itself looks like a reference (`&lt;`, `&nbsp;`, `&#60;`) -/
theorem C04_chardata_roundtrip (s : List Gomjml.Amp.B) :
    Gomjml.CharData.unescape (Gomjml.CharData.escape s).length (Gomjml.CharData.escape s) = s := by
  have hlen : s.length ≤ (Gomjml.CharData.escape s).length := by
    unfold Gomjml.CharData.escape
    induction s with
    | nil => simp
    | cons b r ih =>
      simp only [List.flatMap_cons, List.length_append, List.length_cons]
      have : 1 ≤ (Gomjml.CharData.escB b).length := by
        unfold Gomjml.CharData.escB; split
        · simp [Gomjml.CharData.eAmp]
        · split
          · simp [Gomjml.CharData.eLt]
          · split <;> simp [Gomjml.CharData.eGt]
      omega
  exact Gomjml.CharData.unescape_escape s _ hlen

/-- **character data never becomes markup**: the escaped text contains no `<` and no `>` -/
theorem C04_chardata_never_markup (s : List Gomjml.Amp.B) : ∀ b ∈ Gomjml.CharData.escape s, b ≠ 60 ∧ b ≠ 62 :=
  Gomjml.CharData.escape_no_markup s

/-- non-vacuity: the author's `&lt;b&gt; &amp;nbsp;` (decoded: `<b> &nbsp;`) goes out as `&lt;b&gt; &amp;nbsp;` -/
example : Gomjml.CharData.escape [60, 98, 62, 32, 38, 110, 98, 115, 112, 59]
    = [38, 108, 116, 59, 98, 38, 103, 116, 59, 32, 38, 97, 109, 112, 59, 110, 98, 115, 112, 59] := by decide

/-! ### as authored: inline content written back (`(*MJMLNode).GetMixedContent`: button, navbar link, social element,
accordion title / text) -/

open Gomjml.Mixed in
/-- **nested inline content comes back whole**: a client's tokenizer reading what the serialiser wrote gets every text run,
    every element and every attribute of the author's content, once, in order, text and values decoded to what the author
    wrote — for every well-formed tree (any nesting, any text, any attribute value without an ampersand), whatever the set of
    void elements -/
theorem C04_inline_roundtrip (void : List Gomjml.Amp.B → Bool) (ps : List (Part Node)) (hw : wfParts false ps = true) :
    read (serParts void ps) = some (evParts void ps) := read_content void ps hw

open Gomjml.Mixed in
/-- **the Model of `GetMixedContent` is that serialiser** wherever the Go function trims nothing: on a tree no level of which
    begins or ends with white space (the trimming itself is parity with MJML, which trims the content of these elements) -/
theorem C04_inline_model_is_core (void : List Gomjml.Amp.B → Bool) (f : Nat) (ps : List (Part Node))
    (hd : depthParts ps ≤ f) (ht : tidy ps = true) : content void (f + 1) ps = serParts void ps := content_tidy void f ps hd ht

open Gomjml.Mixed in
/-- … hence, for the function as it is: what `GetMixedContent` returns reads back as the author's content -/
theorem C04_inline_content_roundtrip (void : List Gomjml.Amp.B → Bool) (f : Nat) (ps : List (Part Node))
    (hd : depthParts ps ≤ f) (ht : tidy ps = true) (hw : wfParts false ps = true) :
    read (content void (f + 1) ps) = some (evParts void ps) := by
  rw [content_tidy void f ps hd ht]; exact read_content void ps hw

open Gomjml.Mixed in
/-- PARTIAL — why attribute values with an ampersand are excluded: the serialiser escapes the double quote only, so a value
    that contains the text `&quot;` (the author wrote `&amp;quot;`) is written as it stands and a client reads a quote
    (recorded findings C04-F1..F8: ambiguous ampersands in attribute values) -/
theorem C04_inline_value_counterexample : unq (escQ quot).length (escQ quot) = [34] ∧ quot ≠ [34] := by decide

open Gomjml.Mixed in
/-- non-vacuity: `Go <b class="x y">now</b>!` is tidy and well-formed, its depth is 1 -/
example : tidy [.text [71, 111, 32], .node (.mk [98] [([99, 108, 97, 115, 115], [120, 32, 121])] [.text [110, 111, 119]]), .text [33]] = true ∧
    wfParts false [.text [71, 111, 32], .node (.mk [98] [([99, 108, 97, 115, 115], [120, 32, 121])] [.text [110, 111, 119]]), .text [33]] = true ∧
    depthParts [.text [71, 111, 32], .node (.mk [98] [([99, 108, 97, 115, 115], [120, 32, 121])] [.text [110, 111, 119]]), .text [33]] ≤ 1 := by
  decide

/-! ### as authored: the text of mj-text on its way to the inner HTML (`buildRawInnerHTML`) -/

/-- **mj-text keeps the author's text**: collapsing white space and trimming the ends touch nothing but blanks, tabs and
    line breaks — every other byte comes out, once, in order (texts without no-break spaces; each of those is written as
    `&#xA0;`) -/
theorem C04_text_keeps_ink (s : List Gomjml.Amp.B) (h : ∀ b ∈ s, b ≠ 0xC2) :
    Gomjml.TextFlow.ink (Gomjml.TextFlow.textInner s) = Gomjml.TextFlow.ink s := Gomjml.TextFlow.textInner_ink s h

/-- … what is left of the white space are single blanks (no tab, no line break, never two blanks in a row), and doing it
    again changes nothing -/
theorem C04_text_whitespace (s : List Gomjml.Amp.B) :
    Gomjml.TextFlow.tidyWs false (Gomjml.TextFlow.collapse false s) = true ∧
    Gomjml.TextFlow.collapse false (Gomjml.TextFlow.collapse false s) = Gomjml.TextFlow.collapse false s :=
  ⟨Gomjml.TextFlow.collapse_tidy s false, Gomjml.TextFlow.collapse_idem s false⟩

/-- the void-tag normaliser that runs next rewrites tags only: a text without `<` passes its tag scan unchanged -/
theorem C04_void_normaliser_keeps_text (fuel : Nat) (s : List Gomjml.Amp.B) (h : ∀ b ∈ s, b ≠ 60) :
    Gomjml.TextVoid.normF fuel s = s := Gomjml.TextVoid.normF_no_lt fuel s h

/-- **the void-tag normaliser re-spells tags and nothing else**: tags are rewritten (` />`, `<br>` without its slash), blanks next
    to a `<br>` go — every byte of the content that is neither white space nor a slash comes out, once, in order -/
theorem C04_void_normaliser_respells_only (s : List Gomjml.Amp.B) :
    Gomjml.TextVoid.inkS (Gomjml.TextVoid.normalize s) = Gomjml.TextVoid.inkS s := Gomjml.TextVoid.normalize_inkS s

/-- non-vacuity: `"  a \n\t b<br/>  "` becomes `"a b<br/>"` -/
example : Gomjml.TextFlow.textInner [32, 32, 97, 32, 10, 9, 32, 98, 60, 98, 114, 47, 62, 32, 32] = [97, 32, 98, 60, 98, 114, 47, 62] := by decide

/-- **mj-text content reaches the renderer as written**: for every content that does not begin with a CDATA section of the
    author's, what the XML layer decodes from what the pre-pass wrote (the byte-exact Model `Lines.wrapInner`, with its
    `]]>` escaping) is the content itself, void tags normalised — nothing decoded, nothing lost, `]]>` included.  (The two
    Models of the escaping, `Passes.Rr` of the round-trip proof and `replaceAll` of the pass, are one function:
    `Passes.Rr_eq_replaceAll`.) -/
theorem C04_text_content_delivered (inner : List Gomjml.Amp.B)
    (h : Gomjml.Passes.cdStart.isPrefixOf (inner.dropWhile Gomjml.Passes.isWs) = false) :
    Gomjml.Passes.cdataDecode (Gomjml.Lines.wrapInner inner) = some (Gomjml.Lines.voidNorm inner) :=
  Gomjml.Lines.wrapInner_delivered inner h

/-- **… and so does content behind a leading CDATA section** (`wrapOutsideCDATA`, the branch repaired in cb901ef): whenever the
    author's sections are terminated, what the XML layer decodes from what the pass wrote is the author's text
    (`Lines.authorText`: his CDATA sections opened, every other byte as he wrote it — an escape stays the escape he wrote, a
    `]]>` outside his sections stays a `]]>`), for every content and any number of sections -/
theorem C04_text_content_delivered_behind_cdata (inner t : List Gomjml.Amp.B)
    (h : Gomjml.Passes.cdStart.isPrefixOf (inner.dropWhile Gomjml.Passes.isWs) = true)
    (ht : Gomjml.Lines.authorText ((Gomjml.Lines.voidNorm inner).length + 1) (Gomjml.Lines.voidNorm inner) = some t) :
    Gomjml.Lines.dec (Gomjml.Lines.wrapInner inner) = some t :=
  Gomjml.Lines.wrapInner_delivered_cdata inner t h ht

/-- **mj-text, from the source to the inner HTML**: for content that does not begin with a CDATA section and has no no-break
    space, the inner HTML the component builds (`TextFlow.textInner`, the step in front of the void-tag respelling, which keeps
    the text by `C04_void_normaliser_keeps_text`) keeps every byte of the author's content that is not white space, in order —
    the pre-pass (void tags respelled, `]]>` escaped), the XML layer's decoding and the white-space collapsing composed -/
theorem C04_text_end_to_end (inner : List Gomjml.Amp.B)
    (h : Gomjml.Passes.cdStart.isPrefixOf (inner.dropWhile Gomjml.Passes.isWs) = false) (hc : ∀ b ∈ inner, b ≠ 0xC2) :
    ∃ x, Gomjml.Passes.cdataDecode (Gomjml.Lines.wrapInner inner) = some x ∧
      Gomjml.TextFlow.ink (Gomjml.TextFlow.textInner x) = Gomjml.TextFlow.ink inner :=
  Gomjml.Lines.text_end_to_end inner h hc

end Gomjml.Props.C04
