import Gomjml.Core.Layout
import Gomjml.Spec.Html
/-! The layout model's combined machine (`Layout.run`) refines the three Spec checkers: a token list accepted by the
    combined machine is well formed for standard clients, well formed for Outlook, and hides no author content. -/
namespace Gomjml.Layout
open Gomjml.Spec

def Tag.name : Tag → String
  | .div => "div" | .table => "table" | .tbody => "tbody" | .tr => "tr" | .td => "td" | .para => "p" | .i => "i"
  | .vrect => "v:rect" | .vtextbox => "v:textbox" | .vfill => "v:fill" | .vimage => "v:image"

theorem Tag.name_inj : ∀ a b : Tag, a.name = b.name → a = b := by
  intro a b; cases a <;> cases b <;> simp [Tag.name]

def Tok.toG : Tok → GTok
  | .o n => .o n.outlookOnly n.name
  | .c n => .c n.outlookOnly n.name
  | .v n => .v n.outlookOnly n.name
  | .co => .co
  | .cc => .cc
  | .t => .t ""

def modeOf (m : Bool) : Nat := if m then 1 else 0

/-- one step of the combined machine is one step of each view -/
theorem step_sim (s s' : MS) (x : Tok) (h : stepTok s x = some s') :
    stdStep ⟨modeOf s.mso, s.std.map Tag.name⟩ x.toG = .ok ⟨modeOf s'.mso, s'.std.map Tag.name⟩ ∧
    msoStep ⟨modeOf s.mso, s.all.map Tag.name⟩ x.toG = .ok ⟨modeOf s'.mso, s'.all.map Tag.name⟩ ∧
    visStep ⟨modeOf s.mso, []⟩ x.toG = .ok ⟨modeOf s'.mso, []⟩ := by
  obtain ⟨m, sd, al⟩ := s
  cases x with
  | co =>
    cases m <;> simp [stepTok] at h
    subst h; simp [Tok.toG, stdStep, msoStep, visStep, markers, modeOf]
  | cc =>
    cases m <;> simp [stepTok] at h
    subst h; simp [Tok.toG, stdStep, msoStep, visStep, markers, modeOf]
  | t =>
    cases m <;> simp [stepTok] at h
    subst h; simp [Tok.toG, stdStep, msoStep, visStep, modeOf]
  | v n =>
    simp only [stepTok] at h
    split at h
    · simp at h
    · rename_i hc
      simp at h; subst h
      cases m
      · have : n.outlookOnly = false := by simpa using hc
        simp [Tok.toG, stdStep, msoStep, visStep, modeOf, this]
      · simp [Tok.toG, stdStep, msoStep, visStep, modeOf]
  | o n =>
    simp only [stepTok] at h
    cases m
    · simp only [Bool.false_eq_true, if_false] at h
      split at h
      · simp at h
      · rename_i hc
        simp at h; subst h
        have : n.outlookOnly = false := by simpa using hc
        simp [Tok.toG, stdStep, msoStep, visStep, modeOf, this]
    · simp at h; subst h
      simp [Tok.toG, stdStep, msoStep, visStep, modeOf]
  | c n =>
    simp only [stepTok] at h
    cases al with
    | nil => simp at h
    | cons a ar =>
      simp only at h
      split at h
      · simp at h
      · rename_i hne
        have han : a = n := by simpa using hne
        subst han
        cases m
        · simp only [Bool.false_eq_true, if_false] at h
          cases sd with
          | nil => simp at h
          | cons k sr =>
            simp only at h
            split at h
            · simp at h
            · rename_i hk
              have hka : k = a := by simpa using hk
              subst hka
              simp at h; subst h
              simp [Tok.toG, stdStep, msoStep, visStep, modeOf, pop]
        · simp at h; subst h
          simp [Tok.toG, stdStep, msoStep, visStep, modeOf, pop]

theorem run_sim : ∀ (ts : List Tok) (s s' : MS), run s ts = some s' →
    runE stdStep ⟨modeOf s.mso, s.std.map Tag.name⟩ (ts.map Tok.toG) = .ok ⟨modeOf s'.mso, s'.std.map Tag.name⟩ ∧
    runE msoStep ⟨modeOf s.mso, s.all.map Tag.name⟩ (ts.map Tok.toG) = .ok ⟨modeOf s'.mso, s'.all.map Tag.name⟩ ∧
    runE visStep ⟨modeOf s.mso, []⟩ (ts.map Tok.toG) = .ok ⟨modeOf s'.mso, []⟩ := by
  intro ts
  induction ts with
  | nil => intro s s' h; simp [run] at h; subst h; simp [runE]
  | cons x xs ih =>
    intro s s' h
    simp only [run] at h
    cases hx : stepTok s x with
    | none => simp [hx] at h
    | some s1 =>
      simp only [hx, Option.bind_some] at h
      obtain ⟨h1, h2, h3⟩ := step_sim s s1 x hx
      obtain ⟨i1, i2, i3⟩ := ih s1 s' h
      simp only [List.map_cons, runE, h1, h2, h3]
      exact ⟨i1, i2, i3⟩

/-- **the combined machine refines the Spec**: `WF ts` implies all three properties of `ts` -/
theorem wf_spec (ts : List Tok) (h : WF ts) :
    StdWF (ts.map Tok.toG) ∧ MsoWF (ts.map Tok.toG) ∧ Visible (ts.map Tok.toG) := by
  obtain ⟨h1, h2, h3⟩ := run_sim ts ⟨false, [], []⟩ ⟨false, [], []⟩ h
  refine ⟨h1, h2, ?_⟩
  unfold Visible
  rw [show start = ⟨modeOf false, []⟩ from rfl, h3]
  rfl

end Gomjml.Layout
