import Gomjml.Gen.LengthSites
import Gomjml.Core.Widths
import Gomjml.Core.Lengths
import Gomjml.Gen.Misc
import Gomjml.Gen.PkgVars
/-! # C10 — width flow: boxes nest and Outlook pixel widths match the responsive layout (property theorems only)

`Widths.impl` is the Model of the code's width flow (tied to the code by the exact correspondence run of `hx C10`);
`Widths.spec` is MJML's box model in exact rationals.  Every clause of the property is a theorem about the Model, for every
document of the grammar (any body width, any paddings / borders, any number of columns, groups, wrapper, hero). -/
namespace Gomjml.Props.C10
open Gomjml.Widths

/-- every top-level block is as wide as the body -/
theorem C10_top_level (d : Doc) (h : d.wrapper = none) : (impl d).sectionW = d.body := by
  cases hb : d.block <;> simp [impl, hb, blockW, h]

/-- a block inside a wrapper is the wrapper's width minus the wrapper's horizontal padding and borders (never more than the
    wrapper, which is as wide as the body) -/
theorem C10_in_wrapper (d : Doc) (e : Edges) (h : d.wrapper = some e) :
    (impl d).wrapperW = d.body ∧ (impl d).sectionW = (d.body : Int) - (e.total : Int) ∧ (impl d).sectionW ≤ (impl d).wrapperW := by
  cases hb : d.block <;> simp [impl, hb, blockW, h] <;> omega

/-- a block's content box is never wider than the block, and is exactly the block minus padding and borders whenever that
    leaves anything -/
theorem C10_box (d : Doc) : (impl d).box ≤ (impl d).sectionW := by
  cases hb : d.block <;> simp only [impl, hb] <;> exact secBox_le _ _

theorem C10_box_exact (d : Doc) (e : Edges) (items : List Item) (hb : d.block = .sec e items)
    (h : 0 < blockW d - (e.total : Int)) : (impl d).box = (spec d).box := by
  simp only [impl, spec, hb]; exact secBox_exact _ _ h

/-- no element is ever given a width larger than the content box of its parent: below a section, every column and group is at
    most the section's content box, a column inside a group at most the group, a column's content box at most the column, an
    image or divider at most that content box (where the column has a content box at all) — whenever no width asks for more
    than 100% -/
theorem C10_nesting (d : Doc) (e : Edges) (items : List Item) (hb : d.block = .sec e items) (hw : 0 ≤ blockW d)
    (hs : ∀ it ∈ items, it.Sane) : ∀ o ∈ (impl d).items, o.Fits (impl d).box := by
  intro o ho
  simp only [impl, hb, List.mem_map] at ho
  obtain ⟨it, hit, rfl⟩ := ho
  simp only [impl, hb]
  exact itemOut_fits _ _ it (secBox_nonneg _ _ hw) (List.length_pos_of_mem hit) (hs it hit)

/-- the same below a hero: its images and dividers are at most its content box -/
theorem C10_hero (d : Doc) (e : Edges) (leaves : List Leaf) (hb : d.block = .hero e leaves) (hs : ∀ lf ∈ leaves, lf.Sane) :
    ∀ x, 0 < (impl d).box → some x ∈ (impl d).heroLeaves → x ≤ (impl d).box := by
  intro x hpos hx
  simp only [impl, hb, List.mem_map] at hx
  obtain ⟨lf, hmem, hlf⟩ := hx
  simp only [impl, hb] at hpos ⊢
  exact leaf_le _ lf x hpos (hs lf hmem) hlf

/-- the pixel width handed to Outlook for a column is its responsive percentage (or pixel) class applied to its section's
    content box, to within the half pixel of rounding to whole pixels -/
theorem C10_outlook_px (box : Int) (k : Nat) (w : ColW) (hk : 0 < k) (hw : ∀ a b, w = .pct a b → 0 < b) :
    2 * (((specW (box, 1) k w).2 : Int) * colPx box k w - (specW (box, 1) k w).1) ≤ ((specW (box, 1) k w).2 : Int) ∧
    -((specW (box, 1) k w).2 : Int) ≤ 2 * (((specW (box, 1) k w).2 : Int) * colPx box k w - (specW (box, 1) k w).1) :=
  colPx_close box k w hk hw

/-- sibling columns whose percentages do not exceed 100 together — PARTIAL: the statement "never sum to more than the box" is
    false of the code (and of the Model) because each Outlook width is rounded to a whole pixel; what holds is: at most the box
    plus half a pixel per column.  (MJML prints the unrounded quotient, for which the exact statement `exact_sum_le` holds.) -/
theorem C10_sibling_sum_partial (box : Int) (hb : 0 ≤ box) (ps : List Nat) (h : ps.sum ≤ 100) :
    2 * (ps.map (fun p => colPx box ps.length (.pct p 1))).sum ≤ 2 * box + ps.length :=
  sibling_sum_partial box hb ps h

theorem C10_sibling_sum_exact_widths (box : Int) (hb : 0 ≤ box) (ps : List Nat) (h : ps.sum ≤ 100) :
    (ps.map (fun (p : Nat) => box * (p : Int))).sum ≤ box * 100 := exact_sum_le box hb ps h

/-- the witness that the unrounded statement fails (recorded finding C10-F1): three automatic columns in a 500 px section get
    167 px each, 501 px together -/
theorem C10_sibling_sum_counterexample : colPx 500 3 .auto + colPx 500 3 .auto + colPx 500 3 .auto = 501 := by decide

/-- images and dividers without an explicit width fill exactly the space left after padding -/
theorem C10_leaf_fills (c : Int) (l r : Nat) (lf : Leaf) (hlf : lf = .image l r ∨ lf = .divider l r) (x : Int) (hc : 0 < c)
    (h : leafW c lf = some x) : 0 < c - ((l + r : Nat) : Int) → x = c - ((l + r : Nat) : Int) :=
  leaf_exact c l r lf hlf x hc h

/-- an image with an explicit width keeps it only as far as the space left after padding allows (MJML: min of the two) -/
theorem C10_explicit_width_clamped (c : Int) (l r w : Nat) (x : Int) (hc : 0 < c) (h : leafW c (.imageW l r w) = some x)
    (hp : 0 < c - ((l + r : Nat) : Int)) : x = min (w : Int) (c - ((l + r : Nat) : Int)) := leaf_explicit c l r w x hc h hp

/-- a divider with a percentage width gets that percentage of the space left after its padding, cut to a whole pixel: the
    Outlook width `x` satisfies `x ≤ avail·p/100 < x + 1` (stated without division: p = a/b) -/
theorem C10_divider_percentage (c : Int) (l r a b : Nat) (x : Int) (hc : 0 < c) (hb : 0 < b)
    (h : leafW c (.dividerP l r a b) = some x) (hp : 0 ≤ c - ((l + r : Nat) : Int)) :
    ((100 * b : Nat) : Int) * x ≤ (c - ((l + r : Nat) : Int)) * (a : Int) ∧
    (c - ((l + r : Nat) : Int)) * (a : Int) < ((100 * b : Nat) : Int) * (x + 1) := leaf_pct c l r a b x hc hb h hp

/-- … where the column's content box is exactly the column minus its own padding and borders -/
theorem C10_column_content (px : Int) (e : Edges) (h : 0 ≤ px - (e.total : Int)) : colContent px e = px - (e.total : Int) :=
  colContent_exact px e h

/-! non-vacuity: hand-checked documents -/

/-- 480 px body, section padding "0 25px", three automatic columns: 430 px box, 143 px each (143⅓ rounded), an image with the
    default 25 px side padding gets 93 px -/
example : (impl ⟨480, none, .sec ⟨25, 25, 0, 0⟩ [.col ⟨.auto, ⟨0, 0, 0, 0⟩, .image 25 25⟩, .col ⟨.auto, ⟨0, 0, 0, 0⟩, .other⟩,
      .col ⟨.auto, ⟨0, 0, 0, 0⟩, .other⟩]⟩).box = 430 := by decide
example : colPx 430 3 .auto = 143 ∧ leafW (colContent 143 ⟨0, 0, 0, 0⟩) (.image 25 25) = some 93 ∧
    leafW 300 (.imageW 25 25 900) = some 250 ∧ leafW 300 (.imageW 25 25 100) = some 100 ∧ leafW 300 .carousel = some 300 ∧
    leafW 600 (.dividerP 25 25 75 2) = some 206 ∧ leafW 160 (.dividerP 0 0 125 2) = some 100 := by decide
/-- a wrapper with padding "10px 20px" and a 1 px border in a 500 px body: its section is 458 px wide -/
example : (impl ⟨500, some ⟨20, 20, 1, 1⟩, .sec ⟨0, 0, 0, 0⟩ []⟩).sectionW = 458 := by decide
/-- a 60% group of a 480 px box is 288 px; its 25% column 72 px, its automatic column (of two) 144 px -/
example : groupPx 480 2 (.pct 60 1) = 288 ∧ groupChildPx 288 2 (.pct 25 1) = 72 ∧ groupChildPx 288 2 .auto = 144 := by
  decide
/-- the hypotheses of `C10_nesting` are met by a concrete two-item section -/
example : (0 : Int) ≤ blockW ⟨600, none, .sec ⟨0, 0, 0, 0⟩ []⟩ ∧ Item.Sane (.col ⟨.pct 40 1, ⟨0, 0, 0, 0⟩, .dividerP 25 25 75 2⟩) := by
  refine ⟨by decide, ?_⟩
  simp [Item.Sane, ColW.Sane, Leaf.Sane]

/-- the horizontal values `ParseHorizontalSpacing` picks out of a padding shorthand are CSS's left and right, for one to four
    values (missing values are taken from the opposite side); anything else is no shorthand.  The Model of the function
    (`Lengths.hspacing`: `strings.Fields`, this choice, `ParsePixel` on plain decimals) is tied to the code by correspondence -/
theorem C10_horizontal_pair_is_css {α : Type} (vs : List α) :
    Gomjml.Lengths.hsel vs = (Gomjml.Lengths.cssSides vs).map (fun s => (s.2.2.2, s.2.1)) := Gomjml.Lengths.hsel_css vs

/-- **how the values of a shorthand are separated does not matter**: values made of plain bytes (digits, points, signs, unit
    letters, `%`), any ASCII white space in front of the first, any non-empty ASCII white space between two, any behind the
    last — `strings.Fields` returns exactly the values.  (The width documents write the same lengths with a tab, two blanks,
    blanks around; this is why they must give the same widths.) -/
theorem C10_shorthand_spelling (ws : List (List UInt8 × List UInt8)) (lead : List UInt8)
    (hl : ∀ b ∈ lead, Gomjml.Lengths.isAsciiSp b = true)
    (hw : ∀ p ∈ ws, p.1 ≠ [] ∧ (∀ b ∈ p.1, Gomjml.Lengths.plain b = true) ∧ (∀ b ∈ p.2, Gomjml.Lengths.isAsciiSp b = true))
    (hs : ∀ i, i + 1 < ws.length → ∀ p, ws[i]? = some p → p.2 ≠ []) :
    Gomjml.Lengths.fields (lead ++ ws.flatMap (fun p => p.1 ++ p.2)) = ws.map (·.1) :=
  Gomjml.Lengths.fields_words ws lead hl hw hs

/-- **where an authored length becomes a number** (regenerated): every call, outside package `styles`, of a `styles` length
    parser or of a `strconv` / `Sscan` number parser, by function and number of calls.  The width computations of section,
    wrapper, hero and column read the padding shorthand through `ParseHorizontalSpacing` (one to four values); a width computed
    through a parser of its own, which understands fewer spellings, is a new row here -/
theorem C10_length_sites :
    Gomjml.Gen.LengthSites.lengthSites = [
      ("mjml/components.(*BaseComponent).GetAttributeAsPixel", "styles.ParsePixel", "1"),
      ("mjml/components.(*BaseComponent).GetAttributeAsSpacing", "styles.ParseSpacing", "1"),
      ("mjml/components.(*MJBodyComponent).GetEffectiveWidth", "styles.ParseSize", "1"),
      ("mjml/components.(*MJBodyComponent).GetEffectiveWidthString", "styles.ParseSize", "1"),
      ("mjml/components.(*MJButtonComponent).calculateInnerWidth", "strconv.Atoi", "2"),
      ("mjml/components.(*MJColumnComponent).GetParsedWidth", "styles.ParseSize", "1"),
      ("mjml/components.(*MJColumnComponent).calculateEffectiveContentWidth", "strconv.Atoi", "1"),
      ("mjml/components.(*MJColumnComponent).calculateEffectiveContentWidth", "styles.ParseBorderWidth", "3"),
      ("mjml/components.(*MJColumnComponent).calculateEffectiveContentWidth", "styles.ParseHorizontalSpacing", "1"),
      ("mjml/components.(*MJColumnComponent).calculateEffectiveContentWidth", "styles.ParsePixel", "2"),
      ("mjml/components.(*MJColumnComponent).parsePaddingLeftRight", "strconv.Atoi", "2"),
      ("mjml/components.(*MJDividerComponent).Render", "styles.ParsePixel", "2"),
      ("mjml/components.(*MJDividerComponent).Render", "styles.ParseSize", "1"),
      ("mjml/components.(*MJDividerComponent).parseDividerPaddingLeftRight", "styles.ParsePixel", "1"),
      ("mjml/components.(*MJGroupComponent).GetWidthClass", "fmt.Sscanf", "2"),
      ("mjml/components.(*MJGroupComponent).Render", "fmt.Sscanf", "2"),
      ("mjml/components.(*MJHeroComponent).Render", "styles.ParseHorizontalSpacing", "1"),
      ("mjml/components.(*MJHeroComponent).Render", "styles.ParsePixel", "2"),
      ("mjml/components.(*MJHeroComponent).calculateEffectiveHeight", "fmt.Sscanf", "4"),
      ("mjml/components.(*MJImageComponent).Render", "styles.ParsePixel", "2"),
      ("mjml/components.(*MJImageComponent).calculateDefaultWidth", "styles.ParseBorderWidth", "1"),
      ("mjml/components.(*MJImageComponent).calculateDefaultWidth", "styles.ParsePixel", "3"),
      ("mjml/components.(*MJImageComponent).calculateDefaultWidth", "styles.ParseSpacing", "1"),
      ("mjml/components.(*MJSectionComponent).getInnerContentWidth", "styles.ParseBorderWidth", "3"),
      ("mjml/components.(*MJSectionComponent).getInnerContentWidth", "styles.ParseHorizontalSpacing", "1"),
      ("mjml/components.(*MJSectionComponent).getInnerContentWidth", "styles.ParsePixel", "2"),
      ("mjml/components.(*MJWrapperComponent).getBorderLRWidths", "styles.ParseBorderWidth", "3"),
      ("mjml/components.(*MJWrapperComponent).getEffectiveWidth", "styles.ParseHorizontalSpacing", "3"),
      ("mjml/components.(*MJWrapperComponent).getEffectiveWidth", "styles.ParsePixel", "2"),
      ("mjml/components.computeVMLPosition", "strconv.ParseFloat", "1")] := by decide

/-- where `ParseSpacing` accepts a shorthand (one, two or four values) its four sides are CSS's -/
theorem C10_spacing_is_css (s : List Gomjml.Amp.B) (t r b l : Gomjml.Lengths.Dec) (h : Gomjml.Lengths.spacing s = .ok t r b l) :
    ∃ vs, (Gomjml.Lengths.fields s).map Gomjml.Lengths.parsePixel = vs.map some ∧ Gomjml.Lengths.cssSides vs = some (t, r, b, l) :=
  Gomjml.Lengths.spacing_css s t r b l h

/-- **one horizontal rule for every component**: the image computes its horizontal padding its own way (`ParseSpacing`, and
    the three-value form by hand), every other component through `ParseHorizontalSpacing`; on every shorthand whose values are
    numbers of the modelled grammar the two give the same pair, CSS's left and right, and both give nothing for a count other
    than one to four -/
theorem C10_image_shorthand_is_horizontal (s : List Gomjml.Amp.B) (vs : List Gomjml.Lengths.Dec) (hs : s ≠ [])
    (hv : (Gomjml.Lengths.fields s).map Gomjml.Lengths.parsePixel = vs.map some) :
    Gomjml.Lengths.hspacing s = Gomjml.Lengths.hsel vs ∧
    Gomjml.Lengths.imageShorthand s =
      (match Gomjml.Lengths.hsel vs with | some (l, r) => Gomjml.Lengths.HRes.pair l r | none => Gomjml.Lengths.HRes.zero) :=
  Gomjml.Lengths.image_shorthand_is_horizontal s vs hs hv

/-! ### the pixel-width strings kept as constants (`getPixelWidthString`) -/

/-- the Model of `getPixelWidthString` over its regenerated case table: a listed width returns its constant, any other the
    decimal number followed by `px` -/
def pixelWidthString (cases : List (String × String × String)) (n : Int) : String :=
  match cases.find? (fun r => r.1 = toString n) with
  | some r => r.2.1
  | none => toString n ++ "px"

/-- the regenerated facts: every kept string is its case value followed by `px`, and is a constant or a package variable
    that no statement assigns to after its initialisation; the switch is over the width and the default branch writes
    `strconv.Itoa` of it and `px` -/
theorem C10_pixel_width_cases :
    (∀ r ∈ Gomjml.Gen.Misc.pixelWidthCases, r.2.1 = r.1 ++ "px" ∧
      (r.2.2 = "const" ∨ (r.2.2 ≠ "other" ∧ ∀ w ∈ Gomjml.Gen.PkgVars.pkgVarWriters, w.1 ≠ r.2.2))) ∧
    Gomjml.Gen.Misc.pixelWidthDefault =
      [("tag", "widthPx"), ("write", "strconv.Itoa(widthPx)"), ("write", "\"px\""), ("return", "b.String()")] := by decide

/-- **every pixel width is written as the number it is**: for every width, listed or not, the string is the decimal number
    followed by `px` (a kept string that does not spell its own case — `width150px = "105px"` — breaks this) -/
theorem C10_pixel_width_string (n : Int) :
    pixelWidthString Gomjml.Gen.Misc.pixelWidthCases n = toString n ++ "px" := by
  unfold pixelWidthString
  split
  · rename_i r h
    have hm := List.mem_of_find?_eq_some h
    have hp := List.find?_some h
    simp only [decide_eq_true_eq] at hp
    rw [(C10_pixel_width_cases.1 r hm).1, hp]
  · rfl

/-- non-vacuity: a listed and an unlisted width -/
example : pixelWidthString Gomjml.Gen.Misc.pixelWidthCases 600 = "600px" ∧
    pixelWidthString Gomjml.Gen.Misc.pixelWidthCases 601 = "601px" := by decide

end Gomjml.Props.C10
