package main

import (
	"encoding/xml"
	"fmt"
	"strings"

	"github.com/preslavrachev/gomjml/mjml/components"
	"github.com/preslavrachev/gomjml/mjml/options"
	"github.com/preslavrachev/gomjml/parser"
)

// c19ClassCorrespondence: BuildClassAttribute and BuildInlineStyleString of a real BaseComponent (public API) against the Lean
// Models ClassAttr.build / ClassAttr.inlineStyle (driver `classattr`), on seeded own-class lists (empty parts included),
// css-class values with any spacing, and tables over the class names in play.
func c19ClassCorrespondence(res *Result, drv *DriverPool, tier string, seed int64) {
	n := 600
	if tier == "thorough" {
		n = 12000
	}
	names := []string{"a", "b", "ka", "kb", "mj-column-per-50", "mj-outlook-group-fix", "x-y", "é", "A"}
	seps := []string{" ", "  ", "\t", "\n", " \t ", " ", " ", "\xc2", "\xe2\x80"}
	for i := 0; i < n; i++ {
		r := NewRng(seed, fmt.Sprintf("c19/cls/%d", i))
		part := func() string {
			switch r.Intn(8) {
			case 0:
				return ""
			case 1:
				return " "
			case 2:
				return r.Pick(names) + r.Pick(seps) + r.Pick(names)
			case 3:
				return r.Pick(seps) + r.Pick(names) + r.Pick(seps)
			default:
				return r.Pick(names)
			}
		}
		var existing []string
		for j, m := 0, r.Intn(4); j < m; j++ {
			existing = append(existing, part())
		}
		css := part()
		table := map[string][]options.InlineStyle{}
		var entries []string
		for _, c := range names {
			if !r.Bool(1, 2) {
				continue
			}
			var ds []string
			for j, m := 0, 1+r.Intn(3); j < m; j++ {
				p, v := r.Pick([]string{"color", "margin", "font-size", "x"}), r.Pick([]string{"red", "0", "1px 2px", "a:b", "url(x;y)"})
				table[c] = append(table[c], options.InlineStyle{Property: p, Value: v})
				ds = append(ds, hexOrDash(p)+"="+hexOrDash(v))
			}
			entries = append(entries, hexOrDash(c)+":"+strings.Join(ds, ","))
		}
		node := &parser.MJMLNode{}
		node.XMLName.Local = "mj-text"
		if css != "" || r.Bool(1, 2) {
			node.Attrs = append(node.Attrs, xml.Attr{Name: xml.Name{Local: "css-class"}, Value: css})
		}
		bc := components.NewBaseComponent(node, &options.RenderOpts{InlineClassStyles: table})
		gotAttr := bc.BuildClassAttribute(existing...)
		gotStyle := bc.BuildInlineStyleString(gotAttr)
		req := "classattr " + hexOrDash(css) + " " + fmt.Sprint(len(existing))
		for _, e := range existing {
			req += " " + hexOrDash(e)
		}
		if len(entries) > 0 {
			req += " " + strings.Join(entries, " ")
		}
		line, err := drv.Ask(req)
		f := strings.Fields(line)
		nonEmpty := 0
		for _, e := range append(append([]string{}, existing...), css) {
			if e != "" {
				nonEmpty++
			}
		}
		res.Case("classattr|"+req, nonEmpty >= 2 && gotStyle != "")
		res.mu.Lock()
		res.Programs++
		res.DisagreementsChecked++
		res.mu.Unlock()
		if err != nil || len(f) != 4 {
			res.Disagree(Violation{Sig: "driver-error|classattr", What: fmt.Sprintf("%v %q", err, line), Input: map[string]string{"request": req}})
			continue
		}
		if f[0] != hexOrDash(gotAttr) {
			res.Disagree(Violation{Sig: "class-attribute-model-mismatch", Kind: "input", What: fmt.Sprintf("BuildClassAttribute(%q) with css-class %q = %q, the Model says %s", existing, css, gotAttr, f[0]), Input: map[string]string{"request": req}})
			// the property itself: every class of every part must be in the attribute
			have := map[string]bool{}
			for _, c := range strings.Fields(gotAttr) {
				have[c] = true
			}
			for _, e := range append(append([]string{}, existing...), css) {
				for _, c := range strings.Fields(e) {
					if !have[c] {
						res.Violate(Violation{Sig: "class-lost-in-class-attribute", Kind: "input", What: fmt.Sprintf("class %q of the component is missing from its class attribute %q, so its inline rules cannot be applied", c, gotAttr), Input: map[string]string{"request": req}})
					}
				}
			}
			continue
		}
		if f[1] != hexOrDash(gotStyle) {
			res.Disagree(Violation{Sig: "inline-style-string-model-mismatch", Kind: "input", What: fmt.Sprintf("BuildInlineStyleString(%q) = %q, the Model says %s", gotAttr, gotStyle, f[1]), Input: map[string]string{"request": req}})
			// the property itself: the declarations of every class of the attribute, in order
			var want strings.Builder
			for _, c := range strings.Fields(gotAttr) {
				for _, d := range table[c] {
					want.WriteString(d.Property + ":" + d.Value + ";")
				}
			}
			if want.String() != gotStyle {
				res.Violate(Violation{Sig: "inline-rules-not-applied-completely", Kind: "input", What: fmt.Sprintf("class attribute %q: the style string is %q, the rules of its classes give %q", gotAttr, gotStyle, want.String()), Input: map[string]string{"request": req}})
			}
			continue
		}
		// the theorem's statement evaluated on this input: where its hypothesis holds, the conclusion must
		if f[2] == "1" && f[3] != "1" {
			res.Disagree(Violation{Sig: "class-fields-theorem-instance-false", Kind: "input", What: "fields (build …) ≠ flatMap fields on a tame input: the proved statement and the executable Model disagree", Input: map[string]string{"request": req}})
		}
	}
}
