module verif/harness

go 1.24.4

require (
	github.com/preslavrachev/gomjml v0.0.0
	golang.org/x/tools v0.29.0
)

require (
	golang.org/x/mod v0.22.0 // indirect
	golang.org/x/sync v0.10.0 // indirect
)

replace github.com/preslavrachev/gomjml => /repo
