namespace Gomjml.Tree
/-! Prototype for C18: parseNode as a fold over encoding/xml tokens, and its round trip. -/

inductive XTok
  | start (name : String) (attrs : List (String × String))
  | stop (name : String)
  | chars (s : String)
  | comment (s : String)
deriving DecidableEq, Repr

inductive Part (α : Type)
  | text (s : String)
  | node (n : α)
deriving Repr

/-- MJMLNode, without the derived `Text` field (it is `concat` of text/comment parts) -/
inductive Node
  | mk (name : String) (attrs : List (String × String)) (mixed : List (Part Node))
deriving Repr

/-- token-level view of mixed content, before children are built -/
inductive Item
  | text (s : String)
  | comment (s : String)
  | elem (n : Node)

mutual
  def Node.toks : Node → List XTok
    | .mk n a m => XTok.start n a :: (partsToks m ++ [XTok.stop n])
  def partsToks : List (Part Node) → List XTok
    | [] => []
    | .text s :: r => XTok.chars s :: partsToks r
    | .node n :: r => n.toks ++ partsToks r
end

/-- `parseNode` body: consume tokens until the matching end tag. `fuel` bounds recursion depth+length.
    Returns the parts in order and the remaining tokens. Comments are kept as text parts like the Go code
    (`"<!--" ++ c ++ "-->"`), adjacent text is *not* merged here (segment merging is a separate pass). -/
def parseBody (fuel : Nat) (name : String) : List XTok → Option (List (Part Node) × List XTok)
  | ts => match fuel with
    | 0 => none
    | fuel + 1 => match ts with
      | [] => none                                           -- EOF inside element: error
      | XTok.stop n :: r => if n = name then some ([], r) else none   -- "unexpected end element"
      | XTok.chars s :: r => (parseBody fuel name r).map fun (ps, r') => (Part.text s :: ps, r')
      | XTok.comment s :: r => (parseBody fuel name r).map fun (ps, r') => (Part.text ("<!--" ++ s ++ "-->") :: ps, r')
      | XTok.start n a :: r =>
        match parseBody fuel n r with
        | none => none
        | some (kids, r1) =>
          (parseBody fuel name r1).map fun (ps, r2) => (Part.node (Node.mk n a kids) :: ps, r2)

def parseDoc (ts : List XTok) : Option Node :=
  match ts with
  | XTok.start n a :: r =>
    match parseBody (r.length + 1) n r with
    | some (kids, _) => some (Node.mk n a kids)
    | none => none
  | _ => none

/-- comment-free token lists round-trip exactly -/
def noComment : List XTok → Bool
  | [] => true
  | XTok.comment _ :: _ => false
  | _ :: r => noComment r

theorem noComment_append (a b : List XTok) : noComment (a ++ b) = (noComment a && noComment b) := by
  induction a with
  | nil => simp [noComment]
  | cons x r ih => cases x <;> simp [noComment, ih]

/-- Soundness: whatever `parseBody` accepts is exactly the serialisation of what it returns. -/
theorem parseBody_sound : ∀ (fuel : Nat) (name : String) (ts : List XTok) (ps : List (Part Node)) (rest : List XTok),
    noComment ts = true → parseBody fuel name ts = some (ps, rest) →
    ts = partsToks ps ++ XTok.stop name :: rest := by
  intro fuel
  induction fuel with
  | zero => intro name ts ps rest _ h; simp [parseBody] at h
  | succ fuel ih =>
    intro name ts ps rest hc h
    cases ts with
    | nil => simp [parseBody] at h
    | cons t r =>
      cases t with
      | stop n =>
        simp only [parseBody] at h
        split at h
        · rename_i hn; simp at h; obtain ⟨rfl, rfl⟩ := h; simp [partsToks, hn]
        · simp at h
      | chars s =>
        simp only [parseBody, Option.map_eq_some_iff] at h
        obtain ⟨⟨ps', r'⟩, hp, heq⟩ := h
        simp at heq; obtain ⟨rfl, rfl⟩ := heq
        have := ih name r ps' r' (by simpa [noComment] using hc) hp
        simp [partsToks, ← this]
      | comment s => simp [noComment] at hc
      | start n a =>
        simp only [parseBody] at h
        have hc' : noComment r = true := by simpa [noComment] using hc
        cases hk : parseBody fuel n r with
        | none => simp [hk] at h
        | some kr =>
          obtain ⟨kids, r1⟩ := kr
          simp only [hk, Option.map_eq_some_iff] at h
          obtain ⟨⟨ps', r2⟩, hp, heq⟩ := h
          simp at heq; obtain ⟨rfl, rfl⟩ := heq
          have h1 := ih n r kids r1 hc' hk
          have hc1 : noComment r1 = true := by
            rw [h1, noComment_append] at hc'
            simp [noComment] at hc'
            exact hc'.2
          have h2 := ih name r1 ps' r2 hc1 hp
          rw [h1, h2]
          simp [partsToks, Node.toks]

theorem parseDoc_sound (ts : List XTok) (n : Node) (hc : noComment ts = true) (h : parseDoc ts = some n) :
    ∃ rest, ts = n.toks ++ rest := by
  cases ts with
  | nil => simp [parseDoc] at h
  | cons t r =>
    cases t with
    | start nm a =>
      simp only [parseDoc] at h
      cases hk : parseBody (r.length + 1) nm r with
      | none => simp [hk] at h
      | some kr =>
        obtain ⟨kids, rest⟩ := kr
        simp [hk] at h
        subst h
        have := parseBody_sound _ nm r kids rest (by simpa [noComment] using hc) hk
        exact ⟨rest, by simp [Node.toks, this]⟩
    | _ => simp [parseDoc] at h

end Gomjml.Tree

namespace Gomjml.Tree

theorem partsToks_append (a b : List (Part Node)) : partsToks (a ++ b) = partsToks a ++ partsToks b := by
  induction a with
  | nil => rfl
  | cons p r ih => cases p <;> simp [partsToks, ih]

/-- **Completeness**: the tree builder reads back every serialised tree — what a plain XML tokeniser reports for a tree
    is parsed into exactly that tree, whatever follows it (given fuel for its tokens) -/
theorem parseBody_complete : ∀ (fuel : Nat) (name : String) (ps : List (Part Node)) (rest : List XTok),
    (partsToks ps).length < fuel → parseBody fuel name (partsToks ps ++ XTok.stop name :: rest) = some (ps, rest) := by
  intro fuel
  induction fuel with
  | zero => intro name ps rest h; omega
  | succ fuel ih =>
    intro name ps rest h
    cases ps with
    | nil => simp [partsToks, parseBody]
    | cons p r =>
      cases p with
      | text s =>
        simp only [partsToks, List.cons_append, parseBody]
        have := ih name r rest (by simp only [partsToks, List.length_cons] at h; omega)
        simp [this]
      | node n =>
        obtain ⟨nm, a, m⟩ := n
        simp only [partsToks, Node.toks, List.cons_append, List.append_assoc, parseBody]
        have hlen : (partsToks (Part.node (Node.mk nm a m) :: r)).length = (partsToks m).length + 2 + (partsToks r).length := by
          simp [partsToks, Node.toks]; omega
        rw [hlen] at h
        have h1 := ih nm m (partsToks r ++ XTok.stop name :: rest) (by omega)
        simp only [List.nil_append]
        rw [h1]
        have h2 := ih name r rest (by omega)
        simp [h2]

theorem parseDoc_complete (n : Node) (rest : List XTok) : parseDoc (n.toks ++ rest) = some n := by
  obtain ⟨nm, a, m⟩ := n
  simp only [Node.toks, List.cons_append, List.append_assoc, parseDoc, List.nil_append]
  have := parseBody_complete ((partsToks m ++ XTok.stop nm :: rest).length + 1) nm m rest (by simp; omega)
  rw [this]

end Gomjml.Tree
