import Gomjml.Spec.Html
/-! # Filling content slots with component markup keeps a document well formed

The layout model writes one content token `.t` per content slot.  A real content component (image, button, divider, social,
navbar, accordion, carousel …) writes a whole fragment there, possibly with Outlook-only and not-Outlook blocks of its own.
This file proves the substitution principle, at the level of the Spec checkers themselves:

  if a token list is accepted by a checker, every content token of it stands outside conditional blocks, and every fragment is
  *inert* for that checker (run from outside a conditional on ANY stack it comes back to outside a conditional with the SAME
  stack), then the list with the fragments put in place of the content tokens is accepted too.

Nothing here knows about the layout model; `Props/C02–C04` instantiate it with `Layout.render` and `Leaves`. -/
namespace Gomjml.Expand
open Gomjml.Spec

theorem runE_append (step : VS → GTok → Except String VS) (s : VS) (xs ys : List GTok) :
    runE step s (xs ++ ys) = (match runE step s xs with | .ok s' => runE step s' ys | .error e => .error e) := by
  induction xs generalizing s with
  | nil => simp [runE]
  | cons x xs ih =>
    simp only [List.cons_append, runE]
    cases step s x with
    | ok s' => exact ih s'
    | error e => rfl

/-- a fragment that a checker passes through without a trace, wherever it stands outside conditional blocks -/
def InertFor (step : VS → GTok → Except String VS) (xs : List GTok) : Prop := ∀ st, runE step ⟨0, st⟩ xs = .ok ⟨0, st⟩

/-- inert for all three audiences: standard clients, Outlook, and the visibility check -/
def Inert (xs : List GTok) : Prop := InertFor stdStep xs ∧ InertFor msoStep xs ∧ InertFor visStep xs

theorem inertFor_nil (step) : InertFor step [] := fun _ => rfl

theorem inertFor_append {step} {xs ys : List GTok} (hx : InertFor step xs) (hy : InertFor step ys) : InertFor step (xs ++ ys) := by
  intro st; rw [runE_append, hx st]; exact hy st

theorem inertFor_flatMap {step} {α} (f : α → List GTok) (l : List α) (h : ∀ a ∈ l, InertFor step (f a)) :
    InertFor step (l.flatMap f) := by
  induction l with
  | nil => exact inertFor_nil step
  | cons a l ih =>
    simp only [List.flatMap_cons]
    exact inertFor_append (h a (by simp)) (ih (fun b hb => h b (by simp [hb])))

theorem inert_nil : Inert [] := ⟨inertFor_nil _, inertFor_nil _, inertFor_nil _⟩
theorem inert_append {xs ys} (hx : Inert xs) (hy : Inert ys) : Inert (xs ++ ys) :=
  ⟨inertFor_append hx.1 hy.1, inertFor_append hx.2.1 hy.2.1, inertFor_append hx.2.2 hy.2.2⟩
theorem inert_flatMap {α} (f : α → List GTok) (l : List α) (h : ∀ a ∈ l, Inert (f a)) : Inert (l.flatMap f) :=
  ⟨inertFor_flatMap f l (fun a ha => (h a ha).1), inertFor_flatMap f l (fun a ha => (h a ha).2.1),
   inertFor_flatMap f l (fun a ha => (h a ha).2.2)⟩

/-- put the fragments, in order, in place of the content tokens (a content token for which no fragment is left stays) -/
def expand : List (List GTok) → List GTok → List GTok
  | _, [] => []
  | f :: fs, .t _ :: r => f ++ expand fs r
  | fs, x :: r => x :: expand fs r

/-- every content token is met outside conditional blocks (mode 0); markers are followed as all three checkers follow them -/
def slotsOutside : Nat → List GTok → Bool
  | _, [] => true
  | m, .co :: r => m == 0 && slotsOutside 1 r
  | m, .cc :: r => m == 1 && slotsOutside 0 r
  | m, .nco :: r => m == 0 && slotsOutside 2 r
  | m, .ncc :: r => m == 2 && slotsOutside 0 r
  | m, .t _ :: r => m == 0 && slotsOutside m r
  | m, _ :: r => slotsOutside m r

/-- what the substitution needs to know about a checker: content tokens are no-ops outside conditionals, markers move the
    mode as `markers` does (and nothing else does), the stack is what the checker's own rules make of it -/
structure Regular (step : VS → GTok → Except String VS) : Prop where
  t0 : ∀ st s, step ⟨0, st⟩ (.t s) = .ok ⟨0, st⟩
  co : ∀ s, step s .co = markers s .co
  cc : ∀ s, step s .cc = markers s .cc
  nco : ∀ s, step s .nco = markers s .nco
  ncc : ∀ s, step s .ncc = markers s .ncc
  o : ∀ s oo n s', step s (.o oo n) = .ok s' → s'.mode = s.mode
  c : ∀ s oo n s', step s (.c oo n) = .ok s' → s'.mode = s.mode
  v : ∀ s oo n s', step s (.v oo n) = .ok s' → s'.mode = s.mode

theorem std_regular : Regular stdStep := by
  refine ⟨fun _ _ => rfl, fun _ => rfl, fun _ => rfl, fun _ => rfl, fun _ => rfl, ?_, ?_, ?_⟩
  · intro s oo n s' h
    simp only [stdStep] at h
    split at h
    · simp at h; subst h; rfl
    · split at h
      · simp at h
      · simp at h; subst h; rfl
  · intro s oo n s' h
    simp only [stdStep] at h
    split at h
    · simp at h; subst h; rfl
    · unfold pop at h
      split at h
      · simp at h
      · split at h
        · simp at h; subst h; rfl
        · simp at h
  · intro s oo n s' h
    simp only [stdStep] at h
    split at h
    · simp at h
    · simp at h; subst h; rfl

theorem mso_regular : Regular msoStep := by
  refine ⟨fun _ _ => rfl, fun _ => rfl, fun _ => rfl, fun _ => rfl, fun _ => rfl, ?_, ?_, ?_⟩
  · intro s oo n s' h
    simp only [msoStep] at h
    split at h <;> (simp at h; subst h; rfl)
  · intro s oo n s' h
    simp only [msoStep] at h
    split at h
    · simp at h; subst h; rfl
    · unfold pop at h
      split at h
      · simp at h
      · split at h
        · simp at h; subst h; rfl
        · simp at h
  · intro s oo n s' h
    simp only [msoStep] at h
    simp at h; subst h; rfl

theorem vis_regular : Regular visStep := by
  refine ⟨fun _ _ => rfl, fun _ => rfl, fun _ => rfl, fun _ => rfl, fun _ => rfl, ?_, ?_, ?_⟩
  · intro s oo n s' h; simp only [visStep] at h; simp at h; subst h; rfl
  · intro s oo n s' h; simp only [visStep] at h; simp at h; subst h; rfl
  · intro s oo n s' h; simp only [visStep] at h; simp at h; subst h; rfl

theorem markers_mode (s s' : VS) (x : GTok) (h : markers s x = .ok s') :
    (x = .co → s.mode = 0 ∧ s'.mode = 1) ∧ (x = .cc → s.mode = 1 ∧ s'.mode = 0) ∧
    (x = .nco → s.mode = 0 ∧ s'.mode = 2) ∧ (x = .ncc → s.mode = 2 ∧ s'.mode = 0) := by
  refine ⟨?_, ?_, ?_, ?_⟩ <;> intro hx <;> subst hx <;> simp only [markers] at h <;> split at h <;>
    first | (simp at h; subst h; simp_all) | simp at h

/-- **substitution**: a run that succeeds on a list whose content tokens all stand outside conditionals succeeds, with the same
    final state, on the list with inert fragments in their place -/
theorem expand_run (step : VS → GTok → Except String VS) (hr : Regular step) :
    ∀ (ts : List GTok) (fs : List (List GTok)) (s r : VS),
      (∀ f ∈ fs, InertFor step f) → slotsOutside s.mode ts = true → runE step s ts = .ok r →
      runE step s (expand fs ts) = .ok r := by
  intro ts
  induction ts with
  | nil => intro fs s r _ _ h; cases fs <;> simpa [expand] using h
  | cons x xs ih =>
    intro fs s r hf hs h
    simp only [runE] at h
    cases hx : step s x with
    | error e => simp [hx] at h
    | ok s1 =>
      simp only [hx] at h
      -- the mode after the step is the one `slotsOutside` continues with
      cases x with
      | t str =>
        simp only [slotsOutside, Bool.and_eq_true, beq_iff_eq] at hs
        obtain ⟨hm, hs'⟩ := hs
        obtain ⟨m, st⟩ := s
        simp only at hm; subst hm
        have h1 : s1 = ⟨0, st⟩ := by rw [hr.t0] at hx; simpa using hx.symm
        subst h1
        cases fs with
        | nil =>
          simp only [expand, runE, hr.t0]
          exact ih [] ⟨0, st⟩ r (by simp) hs' h
        | cons f fs' =>
          simp only [expand]
          rw [runE_append, hf f (by simp) st]
          exact ih fs' ⟨0, st⟩ r (fun g hg => hf g (by simp [hg])) hs' h
      | co =>
        have hm := (markers_mode s s1 .co (by rw [← hr.co]; exact hx)).1 rfl
        simp only [slotsOutside, Bool.and_eq_true] at hs
        have : runE step s (expand fs (.co :: xs)) = runE step s1 (expand fs xs) := by
          cases fs <;> simp [expand, runE, hx]
        rw [this]
        exact ih fs s1 r hf (by rw [hm.2]; exact hs.2) h
      | cc =>
        have hm := (markers_mode s s1 .cc (by rw [← hr.cc]; exact hx)).2.1 rfl
        simp only [slotsOutside, Bool.and_eq_true] at hs
        have : runE step s (expand fs (.cc :: xs)) = runE step s1 (expand fs xs) := by
          cases fs <;> simp [expand, runE, hx]
        rw [this]
        exact ih fs s1 r hf (by rw [hm.2]; exact hs.2) h
      | nco =>
        have hm := (markers_mode s s1 .nco (by rw [← hr.nco]; exact hx)).2.2.1 rfl
        simp only [slotsOutside, Bool.and_eq_true] at hs
        have : runE step s (expand fs (.nco :: xs)) = runE step s1 (expand fs xs) := by
          cases fs <;> simp [expand, runE, hx]
        rw [this]
        exact ih fs s1 r hf (by rw [hm.2]; exact hs.2) h
      | ncc =>
        have hm := (markers_mode s s1 .ncc (by rw [← hr.ncc]; exact hx)).2.2.2 rfl
        simp only [slotsOutside, Bool.and_eq_true] at hs
        have : runE step s (expand fs (.ncc :: xs)) = runE step s1 (expand fs xs) := by
          cases fs <;> simp [expand, runE, hx]
        rw [this]
        exact ih fs s1 r hf (by rw [hm.2]; exact hs.2) h
      | o oo n =>
        have hm := hr.o s oo n s1 hx
        have : runE step s (expand fs (.o oo n :: xs)) = runE step s1 (expand fs xs) := by
          cases fs <;> simp [expand, runE, hx]
        rw [this]
        exact ih fs s1 r hf (by rw [hm]; simpa [slotsOutside] using hs) h
      | c oo n =>
        have hm := hr.c s oo n s1 hx
        have : runE step s (expand fs (.c oo n :: xs)) = runE step s1 (expand fs xs) := by
          cases fs <;> simp [expand, runE, hx]
        rw [this]
        exact ih fs s1 r hf (by rw [hm]; simpa [slotsOutside] using hs) h
      | v oo n =>
        have hm := hr.v s oo n s1 hx
        have : runE step s (expand fs (.v oo n :: xs)) = runE step s1 (expand fs xs) := by
          cases fs <;> simp [expand, runE, hx]
        rw [this]
        exact ih fs s1 r hf (by rw [hm]; simpa [slotsOutside] using hs) h

/-- a list without not-Outlook markers that passes the visibility check has all its content tokens outside conditionals -/
def noNot : List GTok → Bool
  | [] => true
  | .nco :: _ => false
  | .ncc :: _ => false
  | _ :: r => noNot r

theorem slots_of_visible : ∀ (ts : List GTok) (m : Nat) (st : List String), m ≤ 1 → noNot ts = true →
    isOk (runE visStep ⟨m, st⟩ ts) = true → slotsOutside m ts = true := by
  intro ts
  induction ts with
  | nil => intro m st _ _ _; rfl
  | cons x xs ih =>
    intro m st hm hn hv
    have h01 : m = 0 ∨ m = 1 := by omega
    cases x with
    | co =>
      rcases h01 with h | h <;> subst h
      · simp only [runE, visStep, markers, if_true] at hv
        simp only [slotsOutside, beq_self_eq_true, Bool.true_and]
        exact ih 1 st (by omega) (by simpa [noNot] using hn) hv
      · simp [runE, visStep, markers, isOk] at hv
    | cc =>
      rcases h01 with h | h <;> subst h
      · simp [runE, visStep, markers, isOk] at hv
      · simp only [runE, visStep, markers, if_true] at hv
        simp only [slotsOutside, beq_self_eq_true, Bool.true_and]
        exact ih 0 st (by omega) (by simpa [noNot] using hn) hv
    | nco => simp [noNot] at hn
    | ncc => simp [noNot] at hn
    | t s =>
      rcases h01 with h | h <;> subst h
      · simp only [runE, visStep] at hv
        simp only [slotsOutside, beq_self_eq_true, Bool.true_and]
        exact ih 0 st (by omega) (by simpa [noNot] using hn) (by simpa using hv)
      · simp [runE, visStep, isOk] at hv
    | o oo n =>
      simp only [runE, visStep] at hv
      simp only [slotsOutside]
      exact ih m st hm (by simpa [noNot] using hn) hv
    | c oo n =>
      simp only [runE, visStep] at hv
      simp only [slotsOutside]
      exact ih m st hm (by simpa [noNot] using hn) hv
    | v oo n =>
      simp only [runE, visStep] at hv
      simp only [slotsOutside]
      exact ih m st hm (by simpa [noNot] using hn) hv

/-- **the three properties survive the substitution**: a document skeleton that is well formed for standard clients and for
    Outlook, hides no content slot, and has no not-Outlook blocks of its own, stays so when every content slot is filled with an
    inert fragment -/
theorem expand_spec (ts : List GTok) (fs : List (List GTok)) (hn : noNot ts = true) (hf : ∀ f ∈ fs, Inert f)
    (hstd : StdWF ts) (hmso : MsoWF ts) (hvis : Visible ts) :
    StdWF (expand fs ts) ∧ MsoWF (expand fs ts) ∧ Visible (expand fs ts) := by
  have hs : slotsOutside 0 ts = true := slots_of_visible ts 0 [] (by omega) hn hvis
  refine ⟨expand_run stdStep std_regular ts fs start start (fun f h => (hf f h).1) hs hstd,
          expand_run msoStep mso_regular ts fs start start (fun f h => (hf f h).2.1) hs hmso, ?_⟩
  unfold Visible at hvis ⊢
  cases hr : runE visStep start ts with
  | error e => simp [hr, isOk] at hvis
  | ok r =>
    rw [expand_run visStep vis_regular ts fs start r (fun f h => (hf f h).2.2) hs hr]
    rfl

end Gomjml.Expand
