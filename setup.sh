#!/bin/sh
# MANIFEST.setup_cmd: build the framework from files on disk only (offline).
set -e
cd "$(dirname "$0")"
export GOFLAGS=-mod=mod GOPROXY=off
unset GOSUMDB GOTOOLCHAIN || true
mkdir -p harness/bin evidence replays .build
cp /repo/go.sum harness/go.sum 2>/dev/null || true
(cd harness && go build -o bin/factx ./cmd/factx)
./harness/bin/factx -repo "${VERIF_REPO:-/repo}" -out lean/Gomjml/Gen
(cd lean && lake build Gomjml driver)
(cd harness && go build -tags verif -o bin/hx ./cmd/hx)
echo "setup ok"
