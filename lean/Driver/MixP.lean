import Gomjml.Core.MixedProofs
import Gomjml.Gen.Parser
import Driver.PassP
import Gomjml.Core.TextFlow
import Gomjml.Core.TextVoid
/-! driver sub-protocol `mixed <parts>`: the content tree of an element in prefix notation —
    `T <hex>` a text run, `N <hex name> <k> (<hex key> <hex value>)×k <m>` an element followed by its m parts; the whole
    request is `<m>` followed by the m top-level parts (`-` = empty hex).
    Answer: `<hex of Mixed.content> <hex of Mixed.serParts> <well-formed 0|1> <read(serParts) = events 0|1> <tidy 0|1>` -/
open Gomjml.Mixed Gomjml.Amp

namespace Driver.MixP

def unhex (h : String) : List UInt8 := if h == "-" then [] else (Driver.HtmlP.unhex h).toList

def lowerB (b : UInt8) : UInt8 := if b ≥ 65 && b ≤ 90 then b + 32 else b

/-- `isVoidHTMLElement`: the regenerated table, the name in lower case -/
def isVoid (n : List UInt8) : Bool := Gomjml.Gen.Parser.voidElementsB.contains (n.map lowerB)

def takeAttrs : Nat → List String → Option (List (List UInt8 × List UInt8) × List String)
  | 0, ts => some ([], ts)
  | k + 1, hk :: hv :: ts => (takeAttrs k ts).map fun (as, r) => ((unhex hk, unhex hv) :: as, r)
  | _, _ => none

/-- `m` parts from the token list (fuel bounds the recursion) -/
def takeParts : Nat → Nat → List String → Option (List (Part Node) × List String)
  | 0, _, _ => none
  | _ + 1, 0, ts => some ([], ts)
  | fuel + 1, m + 1, "T" :: h :: ts => (takeParts fuel m ts).map fun (ps, r) => (Part.text (unhex h) :: ps, r)
  | fuel + 1, m + 1, "N" :: hn :: k :: ts =>
    match k.toNat? with
    | none => none
    | some kn =>
      match takeAttrs kn ts with
      | none => none
      | some (as, ts1) =>
        match ts1 with
        | mk :: ts2 =>
          match mk.toNat? with
          | none => none
          | some mn =>
            match takeParts fuel mn ts2 with
            | none => none
            | some (kids, ts3) =>
              (takeParts fuel m ts3).map fun (ps, r) => (Part.node (Node.mk (unhex hn) as kids) :: ps, r)
        | [] => none
  | _, _, _ => none

def hexOrDash (s : List UInt8) : String := if s.isEmpty then "-" else Driver.PassP.hexOfBytes s

def handle (args : List String) : String :=
  match args with
  | m :: ts =>
    match m.toNat? with
    | none => "bad-request"
    | some mn =>
      match takeParts (ts.length + 2) mn ts with
      | some (ps, []) =>
        let c := content isVoid (depthParts ps + 1) ps
        let s := serParts isVoid ps
        let wf := wfParts false ps
        let rt := read s == some (evParts isVoid ps)
        s!"{hexOrDash c} {hexOrDash s} {if wf then 1 else 0} {if rt then 1 else 0} {if tidy ps then 1 else 0}"
      | _ => "bad-request"
  | _ => "bad-request"

/-- `textflow <hex>`: `TextFlow.textInner` of the text, hex (`-` = empty) -/
def textHandle (args : List String) : String :=
  match args with
  | [h] => hexOrDash (Gomjml.TextFlow.textInner (unhex h))
  | _ => "bad-request"

/-- `textvoid <hex>`: `TextVoid.normalize` of the fragment, hex -/
def voidHandle (args : List String) : String :=
  match args with
  | [h] => hexOrDash (Gomjml.TextVoid.normalize (unhex h))
  | _ => "bad-request"

end Driver.MixP
