package main

import (
	"fmt"
	"strings"

	"github.com/preslavrachev/gomjml/mjml"
)

// runC04Deliver: what the REAL parser (pre-pass + encoding/xml) hands the renderer as the text of an mj-text, against the Lean
// Models `Lines.wrapInner` followed by the CDATA reader `Lines.dec` (driver `textdeliver`) — the reader of the delivery theorems
// C04_text_content_delivered / …_behind_cdata tied to what encoding/xml does with the sections the pass writes.  Contents are
// made of the pieces both look at: raw HTML, escapes, `]]>`, the author's own CDATA sections (leading, several, unterminated),
// void tags, non-UTF-8-safe characters left out (the XML layer rejects them).  Where the real parser rejects the document
// nothing is compared.
func runC04Deliver(res *Result, drv *DriverPool, tier string, seed int64) {
	pieces := []string{"text", " ", "\n", "&amp;", "&lt;b&gt;", "&amp;lt;", "&#60;", "&nbsp;", "<b>", "</b>", "<br>", "<br/>", "<br />", "<img src=\"i.png\"/>", "]]>", "]]", "]", ">", "]]]>", "<![CDATA[", "<![CDATA[x]]>",
		"<![CDATA[a & <b> ]] ]]>", "<![CDATA[]]>", "<!-- c -->", "é", "\"", "'", "<![cdata[y]]>", "<p class=\"k\">", "</p>"}
	explicit := []string{"", "plain", "<![CDATA[S1E]]> S2E &amp;lt; &amp;amp; S3E", "<![CDATA[a]]>b<![CDATA[c]]>d", " \n<![CDATA[a]]>\n", "<![CDATA[a]]> ]]> <br/> x", "<![CDATA[a]]><![CDATA[b]]>", "<![CDATA[a]]]]>", "x ]]> y",
		"<![CDATA[a]]> x ]] > y ]]", "a<![CDATA[b]]>c", "<![CDATA[a<br/>]]><br/>"}
	n := 1200
	if tier == "thorough" {
		n = 30000
	}
	var contents []string
	contents = append(contents, explicit...)
	for i := 0; i < n; i++ {
		r := NewRng(seed, fmt.Sprintf("c04/deliver/%d", i))
		var sb strings.Builder
		if r.Bool(1, 3) {
			sb.WriteString(r.Pick([]string{"<![CDATA[lead]]>", " <![CDATA[lead]]>", "\n\t<![CDATA[l ]] >]]>"}))
		}
		for j, k := 0, r.Intn(7); j < k; j++ {
			sb.WriteString(r.Pick(pieces))
		}
		contents = append(contents, sb.String())
	}
	parallel(8, len(contents), func(i int) {
		c := contents[i]
		if strings.Contains(strings.ToLower(c), "</mj-text") {
			return
		}
		src := "<mjml><mj-body><mj-section><mj-column><mj-text>" + c + "</mj-text></mj-column></mj-section></mj-body></mjml>"
		ast, err := mjml.ParseMJML(src)
		res.Case("deliver|"+c, strings.Contains(c, "<![CDATA[") || strings.Contains(c, "]]>"))
		if err != nil {
			res.Count("deliver=rejected-by-the-parser")
			return
		}
		var text *string
		var walk func(n *mjml.MJMLNode)
		walk = func(n *mjml.MJMLNode) {
			if n.GetTagName() == "mj-text" && text == nil {
				t := n.Text
				text = &t
			}
			for _, k := range n.Children {
				walk(k)
			}
		}
		walk(ast)
		if text == nil {
			res.Count("deliver=no-mj-text-node")
			return
		}
		got, derr := drv.Ask("textdeliver " + hexOrDash(c))
		res.mu.Lock()
		res.Programs++
		res.DisagreementsChecked++
		res.mu.Unlock()
		got = strings.TrimSpace(got)
		if derr != nil {
			res.Disagree(Violation{Sig: "driver-failed|textdeliver", What: derr.Error(), Input: map[string]string{"content": c}})
			return
		}
		if got == "none" {
			res.Count("deliver=reader-rejects-parser-accepts")
			res.Disagree(Violation{Sig: "text-delivery-model-mismatch|reader-rejects", Kind: "input", What: fmt.Sprintf("the parser accepts the content and delivers %q; the Model's CDATA reader rejects what the pass wrote", short(*text, 80)), Input: map[string]string{"content": c}})
			return
		}
		res.Count("deliver=compared")
		if want := hexOrDash(*text); got != want {
			res.Disagree(Violation{Sig: "text-delivery-model-mismatch", Kind: "input", What: fmt.Sprintf("mj-text content %q: the parser delivers %q, the Models (wrapInner, then the CDATA reader) %s (hex)", short(c, 80), short(*text, 80), short(got, 80)), Input: map[string]string{"content": c}})
		}
	})
}
