namespace Gomjml.Layout
/-! Prototype for C02/C03: both HTML views of the layout skeleton are well nested on the tame fragment. -/

inductive Tag | div | table | tbody | tr | td | para | i | vrect | vtextbox | vfill | vimage
deriving DecidableEq, Repr

def Tag.outlookOnly : Tag → Bool
  | .vrect | .vtextbox | .vfill | .vimage => true
  | _ => false

inductive Tok
  | o (n : Tag) | c (n : Tag) | v (n : Tag) | co | cc | t
deriving DecidableEq, Repr

open Tok Tag

/-- machine state: inside an Outlook conditional?, stack seen by standard clients, stack seen by Outlook -/
structure MS where
  mso : Bool
  std : List Tag
  all : List Tag
deriving DecidableEq, Repr

def stepTok (s : MS) : Tok → Option MS
  | co => if s.mso then none else some { s with mso := true }            -- nested conditional = error
  | cc => if s.mso then some { s with mso := false } else none           -- stray endif = error
  | t => if s.mso then none else some s                                   -- author content hidden in an Outlook comment (C04)
  | v n => if !s.mso && n.outlookOnly then none else some s               -- VML outside a conditional
  | o n =>
    if s.mso then some { s with all := n :: s.all }
    else if n.outlookOnly then none
    else some { s with std := n :: s.std, all := n :: s.all }
  | c n =>
    match s.all with
    | [] => none
    | m :: ar =>
      if m ≠ n then none
      else if s.mso then some { s with all := ar }
      else match s.std with
        | [] => none
        | k :: sr => if k ≠ n then none else some { s with std := sr, all := ar }

def run (s : MS) : List Tok → Option MS
  | [] => some s
  | x :: xs => (stepTok s x).bind (fun s' => run s' xs)

theorem run_append (s : MS) (xs ys : List Tok) : run s (xs ++ ys) = (run s xs).bind (fun s' => run s' ys) := by
  induction xs generalizing s with
  | nil => simp [run]
  | cons x xs ih =>
    simp only [List.cons_append, run]
    cases h : stepTok s x with
    | none => simp
    | some s' => simp [ih]

/-- well-formed for both kinds of client -/
def WF (ts : List Tok) : Prop := run ⟨false, [], []⟩ ts = some ⟨false, [], []⟩

/-- a fragment that can be dropped anywhere in standard mode without disturbing either stack -/
def Neutral (xs : List Tok) : Prop := ∀ sd al, run ⟨false, sd, al⟩ xs = some ⟨false, sd, al⟩

theorem neutral_nil : Neutral [] := by intro sd al; rfl

theorem neutral_append {xs ys} (hx : Neutral xs) (hy : Neutral ys) : Neutral (xs ++ ys) := by
  intro sd al; rw [run_append, hx]; simpa using hy sd al

theorem neutral_flatMap {α} (f : α → List Tok) (l : List α) (h : ∀ a ∈ l, Neutral (f a)) :
    Neutral (l.flatMap f) := by
  induction l with
  | nil => exact neutral_nil
  | cons a l ih =>
    simp only [List.flatMap_cons]
    exact neutral_append (h a (by simp)) (ih (fun b hb => h b (by simp [hb])))

/-! ### the skeleton model (port of Appendix B, wrapper-free part) -/

def textRow : List Tok := [o tr, o td, o div, t, c div, c td, c tr]
def rawLeaf : List Tok := [o i, t, c i]

/-- `slot`: the place of any other content component (image, button, divider, social …): the component writes everything
    itself, row and cell included; its markup is filled in by `Leaves` / `Expand` -/
inductive Leaf | text | raw | slot
deriving Repr

def Leaf.toks : Leaf → List Tok
  | .text => textRow
  | .raw => rawLeaf
  | .slot => [t]

structure Column where
  gutter : Bool
  leaves : List Leaf
deriving Repr

def colPre (gutter : Bool) : List Tok := [o div] ++ (if gutter then [o table, o tbody, o tr, o td] else []) ++ [o table, o tbody]
def colPost (gutter : Bool) : List Tok := [c tbody, c table] ++ (if gutter then [c td, c tr, c tbody, c table] else []) ++ [c div]
def Column.toks (col : Column) : List Tok :=
  colPre col.gutter ++ col.leaves.flatMap Leaf.toks ++ colPost col.gutter

/-- children of an `mj-group` -/
inductive GChild
  | col (c : Column)
  | raw (blank : Bool)
deriving Repr

def rawToks (blank : Bool) : List Tok := if blank then [] else rawLeaf

def GChild.isCol : GChild → Bool
  | .col _ => true
  | _ => false

/-- `group.go:152-215`: `first` = no column rendered yet, `rem` = columns still to come (this one included) -/
def gKids : Bool → Nat → List GChild → List Tok
  | _, _, [] => []
  | first, rem, .raw b :: r => rawToks b ++ gKids first rem r
  | first, rem, .col col :: r =>
    (if first then [co, o table, o tr, o td, cc] else [co, c td, o td, cc]) ++ col.toks ++
    (if rem == 1 then [co, c td, c tr, c table, cc] else []) ++ gKids false (rem - 1) r

def groupToks (kids : List GChild) : List Tok :=
  [co, o table, o tr, o td, cc, o div] ++ gKids true (kids.countP GChild.isCol) kids ++
  [c div, co, c td, c tr, c table, cc]

/-- children of an `mj-section` -/
inductive SChild
  | col (c : Column)
  | group (g : List GChild)
  | raw (blank : Bool)
deriving Repr

def SChild.isCol : SChild → Bool
  | .col _ => true
  | _ => false
def SChild.isRaw : SChild → Bool
  | .raw _ => true
  | _ => false

structure Section where
  fw : Bool          -- full-width
  bg : Bool          -- background-url
  split : Bool       -- the single column has right-aligned text (and the section no css-class)
  txt : Bool         -- no children but non-blank text
  bgc : Bool         -- background-color set (only steers the wrapper's Outlook table choice)
  css : Bool         -- css-class set (disables the custom split wrapper)
  kids : List SChild
deriving Repr

/-- `section.go:552-806` for a shared Outlook table (`columnCount > 1 || rawSiblings > 0`, at least one
    column): `opened` = the shared `<table><tr>` has been written -/
def sharedKids : Bool → List SChild → List Tok
  | opened, [] => if opened then [co, c td, c tr, c table, cc] else []
  | opened, .raw b :: r => rawToks b ++ sharedKids opened r
  | opened, .group g :: r => groupToks g ++ sharedKids opened r
  | opened, .col col :: r =>
    (if opened then [co, c td] else [co, o table, o tr]) ++ [o td, cc] ++ col.toks ++ sharedKids true r

/-- not shared: at most one column (which gets its own Outlook table), no raws, any number of groups -/
def soloKids (split : Bool) : List SChild → List Tok
  | [] => []
  | .raw b :: r => rawToks b ++ soloKids split r
  | .group g :: r => groupToks g ++ soloKids split r
  | .col col :: r =>
    (if split then [co, o table, o tr, cc, co, o td, cc] ++ col.toks ++ [co, c td, cc, co, c tr, c table, cc]
     else [co, o table, o tr, o td, cc] ++ col.toks ++ [co, c td, c tr, c table, cc]) ++ soloKids split r

/-- everything a section writes inside its `<td>` -/
def colsToks (split txt : Bool) (kids : List SChild) : List Tok :=
  let ncol := kids.countP SChild.isCol
  let nraw := kids.countP SChild.isRaw
  if kids.isEmpty then
    (if txt then [co, o table, o tr, cc, t, co, c tr, c table, cc] else [co, o table, o tr, c tr, c table, cc])
  else if ncol > 1 || nraw > 0 then
    (if ncol == 0 then [co, o table, o tr, cc] ++ soloKids split kids ++ [co, c tr, c table, cc]
     else sharedKids false kids)
  else soloKids split kids

/-- the standard-client part of a section (div, optional background div, table … columns … closes) -/
def innerPre (bg : Bool) : List Tok := [o div] ++ (if bg then [o div] else []) ++ [o table, o tbody, o tr, o td]
def innerPost (bg : Bool) : List Tok := [c td, c tr, c tbody, c table] ++ (if bg then [c div] else []) ++ [c div]
def innerToks (bg single txt : Bool) (kids : List SChild) : List Tok :=
  innerPre bg ++ colsToks single txt kids ++ innerPost bg

/-- what a body-level section writes before its standard-client part, as a function of the flags -/
def secPre (fw bg single pending : Bool) : List Tok :=
  let vmlwrap := bg && fw
  let custom := single && !pending
  (if fw then [o table, o tbody, o tr, o td] ++ (if bg then [co, o vrect, v vfill, o vtextbox] else []) else []) ++
  (if custom then (if vmlwrap then [] else [co]) ++ [o table, o tr, o td]
   else (if pending || vmlwrap then [] else [co]) ++ [o table, o tr, o td]) ++
  (if bg && !fw then [o vrect, v vfill, o vtextbox, cc] else [cc])

def secLeave (fw bg more : Bool) : Bool := !bg && !fw && more

/-- … and after it -/
def secPost (fw bg more : Bool) : List Tok :=
  (if bg && !fw then [co, c vtextbox, c vrect, c td, c tr, c table, cc]
   else if bg && fw then [co, c td, c tr, c table, c vtextbox, c vrect, cc]
   else if secLeave fw bg more then [co, c td, c tr, c table]
   else [co, c td, c tr, c table, cc]) ++
  (if fw then [c td, c tr, c tbody, c table] else [])

def emitToks (fw bg custom0 split txt pending more : Bool) (kids : List SChild) : List Tok × Bool :=
  (secPre fw bg custom0 pending ++ innerToks bg split txt kids ++ secPost fw bg more, secLeave fw bg more)

/-- `singleColumnSplit`: exactly one child, a column, with right-aligned text -/
def Section.single (s : Section) : Bool :=
  match s.kids with
  | [.col _] => s.split
  | _ => false

def Section.emit (s : Section) (pending more : Bool) : List Tok × Bool :=
  emitToks s.fw s.bg (s.single && !s.css) s.split s.txt pending more s.kids

def heroPre : List Tok :=
  [co, o table, o tr, o td, v vimage, cc, o div, o table, o tbody, o tr, o td, co, o table, o tr, o td, cc,
   o div, o table, o tbody, o tr, o td, o table, o tbody]
def heroPost : List Tok :=
  [c tbody, c table, c td, c tr, c tbody, c table, c div, co, c td, c tr, c table, cc,
   c td, c tr, c tbody, c table, c div, co, c td, c tr, c table, cc]
def heroToks (leaves : List Leaf) : List Tok := heroPre ++ leaves.flatMap Leaf.toks ++ heroPost

/-- a section rendered inside a wrapper (`skipSectionMSOTable`): `wmb` = wrapper delegated its background -/
def emitIW (fw bg wmb single txt : Bool) (kids : List SChild) : List Tok :=
  (if fw then [o table, o tbody, o tr, o td] ++
     (if bg then [co, o vrect, v vfill, o vtextbox, o table, o tr, o td, cc] else []) else []) ++
  (if wmb then [co, o table, o tr, o td, cc] else []) ++
  (if bg && !fw then [co, o vrect, v vfill, o vtextbox, cc] else []) ++
  innerToks bg single txt kids ++
  (if wmb then [co, c td, c tr, c table, cc] else []) ++
  (if bg && !fw then [co, c vtextbox, c vrect, cc] else []) ++
  (if fw then (if bg then [co, c td, c tr, c table, c vtextbox, c vrect, cc] else []) ++ [c td, c tr, c tbody, c table] else [])

inductive WChild
  | sec (s : Section)
  | raw (blank : Bool)
deriving Repr

def WChild.isSec : WChild → Bool
  | .sec _ => true
  | _ => false

structure Wrapper where
  fw : Bool
  bgc : Bool
  kids : List WChild
deriving Repr

def secsOf : List WChild → List Section
  | [] => []
  | .sec s :: r => s :: secsOf r
  | _ :: r => secsOf r

/-- the children loop of `wrapper.go`; `prev` = previous child: none / raw / section(fw) -/
inductive Prev | none | raw | sec (fw : Bool)

/-- how much of the wrapper's Outlook table structure is open at a point of the children loop (`html.MSOWrapper*`): nothing
    (a wrapper without renderable children writes a complete, empty table), the wrapper table and one of its cells, or a
    section table inside that cell as well -/
inductive Depth | none | cell | sec
deriving DecidableEq, Repr

/-- what Outlook's stack holds for a depth (top first) -/
def Depth.stack : Depth → List Tag
  | .none => []
  | .cell => [td, tr, table]
  | .sec => [td, tr, table, td, tr, table]

/-- close what is open down to the row level of the wrapper table (`msoWrapperRowClose`) -/
def rowClose : Depth → List Tok
  | .sec => [c td, c tr, c table, c td, c tr]
  | .cell => [c td, c tr]
  | .none => []

/-- open a cell of the wrapper table again, with or without a section table inside -/
def rowOpen (toSec : Bool) : List Tok := if toSec then [o tr, o td, o table, o tr, o td] else [o tr, o td]

def Depth.ofSec (toSec : Bool) : Depth := if toSec then .sec else .cell

/-- children loop: tokens written and the depth left open.  A raw child stands between two rows: what is open is closed in
    front of it and opened again behind it.  Between two sections the open depth is closed and a cell (with a section table
    when the previous section was not full-width, or `forceSec`) is opened. -/
def wKids (forceSec delegated wbgc : Bool) : Depth → Prev → List WChild → List Tok × Depth
  | d, _, [] => ([], d)
  | d, _, .raw b :: r =>
    let rest := wKids forceSec delegated wbgc d .raw r
    ((if d = .none then rawToks b
      else [co] ++ rowClose d ++ [cc] ++ rawToks b ++ [co] ++ rowOpen (decide (d = .sec)) ++ [cc]) ++ rest.1, rest.2)
  | d, prev, .sec s :: r =>
    let toSec := match prev with | .sec pfw => !pfw || forceSec | _ => false
    let d1 := match prev with | .sec _ => Depth.ofSec toSec | _ => d
    let trans := match prev with | .sec _ => [co] ++ rowClose d ++ rowOpen toSec ++ [cc] | _ => []
    let rest := wKids forceSec delegated wbgc d1 (.sec s.fw) r
    (trans ++ emitIW s.fw s.bg (delegated && s.fw && !s.bg && (s.bgc || wbgc)) s.split s.txt s.kids ++ rest.1, rest.2)

def wPre (fw pending : Bool) : List Tok :=
  (if fw then [o table, o tbody, o tr, o td] else []) ++
  (if pending then [o table, o tr, o td, cc] else [co, o table, o tr, o td, cc]) ++
  [o div, o table, o tbody, o tr, o td]

def wPost (fw : Bool) : List Tok :=
  [c td, c tr, c tbody, c table, c div, co, c td, c tr, c table, cc] ++
  (if fw then [c td, c tr, c tbody, c table] else [])

/-- depth the wrapper opens before its first child -/
def Wrapper.depth0 (w : Wrapper) : Depth :=
  let secs := secsOf w.kids
  let firstBgc := match secs with | s :: _ => s.bgc | [] => false
  let split := secs.any (·.fw)
  let msoBg := firstBgc || (split && w.bgc)
  let outerOnly := !secs.isEmpty && secs.all (fun s => s.fw && s.bg)
  let renderable := w.kids.any (fun c => match c with | .sec _ => true | .raw b => !b)
  if !renderable then .none else if outerOnly || (split && msoBg) then .cell else .sec

def Depth.openToks : Depth → List Tok
  | .none => [co, o table, c table, cc]
  | .cell => [co, o table, o tr, o td, cc]
  | .sec => [co, o table, o tr, o td, o table, o tr, o td, cc]

/-- `RenderMSOWrapperClose`: close exactly what is open -/
def Depth.closeToks (d : Depth) : List Tok := if d = .none then [] else [co] ++ rowClose d ++ [c table, cc]

/-- the Outlook part of a wrapper between its own cell and its closing -/
def Wrapper.mid (w : Wrapper) : List Tok :=
  let secs := secsOf w.kids
  let firstBgc := match secs with | s :: _ => s.bgc | [] => false
  let split := secs.any (·.fw)
  let msoBg := firstBgc || (split && w.bgc)
  let outerOnly := !secs.isEmpty && secs.all (fun s => s.fw && s.bg)
  let renderable := w.kids.any (fun c => match c with | .sec _ => true | .raw b => !b)
  let delegated := renderable && !outerOnly && split && msoBg
  let forceSec := if w.fw then false else delegated && w.bgc
  let k := wKids forceSec delegated w.bgc w.depth0 .none w.kids
  w.depth0.openToks ++ k.1 ++ k.2.closeToks

def Wrapper.toks (w : Wrapper) (pending : Bool) : List Tok := wPre w.fw pending ++ w.mid ++ wPost w.fw

inductive Block
  | section (s : Section)
  | wrapper (w : Wrapper)
  | hero (leaves : List Leaf)
  | raw (blank : Bool)
deriving Repr

/-- counted by `RemainingBodySections` -/
def Block.isSec : Block → Bool
  | .section _ => true
  | .wrapper _ => true
  | _ => false

/-- does the block that directly follows continue an Outlook comment left open? (`body.go`: a section or wrapper that is not
    full-width) -/
def nextConsumes : List Block → Bool
  | .section s :: _ => !s.fw
  | .wrapper w :: _ => !w.fw
  | _ => false

/-- what each body child writes (into its own buffer), with the pending flag threaded through -/
def blockOuts : List Block → Bool → List (List Tok)
  | [], _ => []
  | .section s :: rest, p =>
    let r := s.emit p (nextConsumes rest)
    r.1 :: blockOuts rest r.2
  | .wrapper w :: rest, p => w.toks p :: blockOuts rest false      -- a wrapper consumes and never leaves the comment
  | .hero ls :: rest, p => heroToks ls :: blockOuts rest p          -- pending is *not* reset: faithful to the code
  | .raw b :: rest, p => (if b then [] else [o Tag.para, t, c Tag.para]) :: blockOuts rest p

/-- the body writes each block once the next one is known: where one block ends with `endif` and the next begins with
    `if mso | IE`, both markers are dropped (MJML's mergeOutlookConditionnals at block boundaries); empty outputs are skipped -/
def join : List Tok → List (List Tok) → List Tok
  | held, [] => held
  | held, out :: rest =>
    if out = [] then join held rest
    else if held.getLast? = some cc ∧ out.head? = some co then held.dropLast ++ join out.tail rest
    else held ++ join out rest

def bodyLoop (bs : List Block) (p : Bool) : List Tok := join [] (blockOuts bs p)

def render (bs : List Block) : List Tok := [o div] ++ bodyLoop bs false ++ [c div]

/-- the fragment the body loop keeps to: while the Outlook comment is pending only a non-full-width section or wrapper may
    follow.  Since `body.go` looks at the next sibling before letting a section leave the comment open, this holds for every
    body (`tame_all`); wrappers of every configuration are handled (`wrapper_run`). -/
def Tame : List Block → Bool → Prop
  | [], _ => True
  | .section s :: rest, p => (p = true → s.fw = false) ∧ Tame rest (s.emit p (nextConsumes rest)).2
  | .wrapper w :: rest, p => (p = true → w.fw = false) ∧ Tame rest false
  | .raw true :: rest, p => Tame rest p                          -- a blank raw writes nothing
  | _ :: rest, p => p = false ∧ Tame rest p


/-! ### proofs: closed evaluation + frame lemma -/

/-- **Frame lemma**: a run that succeeds on small stacks succeeds, with the same relative effect, on any
    deeper stacks (the machine only ever looks at the top). -/
theorem run_frame : ∀ (xs : List Tok) (m : Bool) (s a : List Tag) (r : MS) (sd al : List Tag),
    run ⟨m, s, a⟩ xs = some r → run ⟨m, s ++ sd, a ++ al⟩ xs = some ⟨r.mso, r.std ++ sd, r.all ++ al⟩
  | [], m, s, a, r, sd, al, h => by simp [run] at h ⊢; subst h; simp
  | x :: xs, m, s, a, r, sd, al, h => by
    simp only [run] at h ⊢
    cases hs : stepTok ⟨m, s, a⟩ x with
    | none => simp [hs] at h
    | some s1 =>
      simp only [hs, Option.bind_some] at h
      have hstep : stepTok ⟨m, s ++ sd, a ++ al⟩ x = some ⟨s1.mso, s1.std ++ sd, s1.all ++ al⟩ := by
        cases x with
        | co => cases m <;> simp [stepTok] at hs ⊢ <;> subst hs <;> simp
        | cc => cases m <;> simp [stepTok] at hs ⊢ <;> subst hs <;> simp
        | t => cases m <;> simp [stepTok] at hs ⊢ <;> subst hs <;> simp
        | v n =>
          simp only [stepTok] at hs ⊢
          split at hs
          · simp at hs
          · rename_i hc; simp at hs; subst hs; simp [hc]
        | o n =>
          simp only [stepTok] at hs ⊢
          cases m
          · simp only [Bool.false_eq_true, ite_false] at hs ⊢
            split at hs
            · simp at hs
            · rename_i hc; simp at hs; subst hs; simp [hc]
          · simp at hs ⊢; subst hs; simp
        | c n =>
          simp only [stepTok] at hs ⊢
          cases a with
          | nil => simp at hs
          | cons m0 ar =>
            simp only [List.cons_append] at hs ⊢
            by_cases hmn : m0 = n
            · subst hmn
              cases m
              · simp only [ne_eq, not_true_eq_false, ite_false, Bool.false_eq_true] at hs ⊢
                cases s with
                | nil => simp at hs
                | cons k sr =>
                  simp only [List.cons_append] at hs ⊢
                  by_cases hk : k = m0
                  · subst hk; simp at hs ⊢; subst hs; simp
                  · simp [hk] at hs
              · simp at hs ⊢; subst hs; simp
            · simp [hmn] at hs
      rw [hstep]
      simp only [Option.bind_some]
      exact run_frame xs s1.mso s1.std s1.all r sd al h

/-- evaluate a concrete fragment on empty stacks, get its behaviour on all stacks -/
theorem frame0 (xs : List Tok) (m m' : Bool) (s a : List Tag) (h : run ⟨m, [], []⟩ xs = some ⟨m', s, a⟩)
    (sd al : List Tag) : run ⟨m, sd, al⟩ xs = some ⟨m', s ++ sd, a ++ al⟩ := by
  simpa using run_frame xs m [] [] ⟨m', s, a⟩ sd al h

/-- concrete prefix, neutral middle, concrete suffix -/
theorem sandwich (pre kids post : List Tok) (m m' : Bool) (S A : List Tag)
    (h1 : run ⟨m, [], []⟩ pre = some ⟨false, S, A⟩) (hk : Neutral kids)
    (h2 : run ⟨false, S, A⟩ post = some ⟨m', [], []⟩) (sd al : List Tag) :
    run ⟨m, sd, al⟩ (pre ++ kids ++ post) = some ⟨m', sd, al⟩ := by
  rw [run_append, run_append, frame0 pre m false S A h1 sd al]
  simp only [Option.bind_some]
  rw [hk]
  simp only [Option.bind_some]
  simpa using run_frame post false S A ⟨m', [], []⟩ sd al h2

theorem leaf_neutral (l : Leaf) : Neutral l.toks := by
  intro sd al
  cases l
  · simpa [Leaf.toks] using frame0 textRow false false [] [] (by rfl) sd al
  · simpa [Leaf.toks] using frame0 rawLeaf false false [] [] (by rfl) sd al
  · simpa [Leaf.toks] using frame0 [t] false false [] [] (by rfl) sd al

theorem leaves_neutral (ls : List Leaf) : Neutral (ls.flatMap Leaf.toks) :=
  neutral_flatMap _ ls (fun a _ => leaf_neutral a)

theorem column_neutral (col : Column) : Neutral col.toks := by
  intro sd al
  unfold Column.toks
  cases col.gutter
  · exact sandwich _ _ _ false false _ _ (by rfl) (leaves_neutral _) (by rfl) sd al
  · exact sandwich _ _ _ false false _ _ (by rfl) (leaves_neutral _) (by rfl) sd al


theorem rawToks_neutral (b : Bool) : Neutral (rawToks b) := by
  intro sd al
  cases b
  · simpa [rawToks] using frame0 rawLeaf false false [] [] (by rfl) sd al
  · rfl

/-- general form of `sandwich`: the concrete parts may need and leave something on the stacks -/
theorem sandwich' (pre kids post : List Tok) (m m' : Bool) (S0 A0 S A S1 A1 : List Tag)
    (h1 : run ⟨m, S0, A0⟩ pre = some ⟨false, S, A⟩) (hk : Neutral kids)
    (h2 : run ⟨false, S, A⟩ post = some ⟨m', S1, A1⟩) (sd al : List Tag) :
    run ⟨m, S0 ++ sd, A0 ++ al⟩ (pre ++ kids ++ post) = some ⟨m', S1 ++ sd, A1 ++ al⟩ := by
  rw [run_append, run_append, run_frame pre m S0 A0 _ sd al h1]
  simp only [Option.bind_some]
  rw [hk]
  simp only [Option.bind_some]
  exact run_frame post false S A _ sd al h2

/-- run a concrete fragment that needs `A0` on Outlook's stack -/
theorem frameA (xs : List Tok) (A0 A1 : List Tag) (h : run ⟨false, [], A0⟩ xs = some ⟨false, [], A1⟩)
    (sd al : List Tag) : run ⟨false, sd, A0 ++ al⟩ xs = some ⟨false, sd, A1 ++ al⟩ := by
  simpa using run_frame xs false [] A0 _ sd al h

def cell : List Tag := [td, tr, table]

/-- columns of a group: inside a cell iff a column has been rendered and more are to come -/
theorem gKids_run : ∀ (kids : List GChild) (first : Bool) (rem : Nat) (sd al : List Tag),
    rem = kids.countP GChild.isCol →
    run ⟨false, sd, (if !first && decide (rem ≥ 1) then cell else []) ++ al⟩ (gKids first rem kids) = some ⟨false, sd, al⟩
  | [], first, rem, sd, al, h => by
    simp at h; subst h; simp [gKids, run]
  | .raw b :: r, first, rem, sd, al, h => by
    simp only [gKids]
    rw [run_append, rawToks_neutral b]
    simp only [Option.bind_some]
    exact gKids_run r first rem sd al (by rw [h, List.countP_cons]; simp [GChild.isCol])
  | .col col :: r, first, rem, sd, al, h => by
    have hrem : rem = r.countP GChild.isCol + 1 := by
      rw [h, List.countP_cons]; simp [GChild.isCol]
    simp only [gKids]
    rw [run_append, run_append, run_append]
    have hopen : run ⟨false, sd, (if !first && decide (rem ≥ 1) then cell else []) ++ al⟩
        (if first then [co, o table, o tr, o td, cc] else [co, c td, o td, cc]) = some ⟨false, sd, cell ++ al⟩ := by
      cases first
      · have : decide (rem ≥ 1) = true := by simp [hrem]
        simp only [Bool.not_false, Bool.true_and, this, ite_true, Bool.false_eq_true, ite_false]
        exact frameA [co, c td, o td, cc] cell cell (by rfl) sd al
      · simp only [Bool.not_true, Bool.false_and, Bool.false_eq_true, ite_false, ite_true, List.nil_append]
        simpa using frame0 [co, o table, o tr, o td, cc] false false [] cell (by rfl) sd al
    rw [hopen]
    simp only [Option.bind_some]
    rw [column_neutral col]
    simp only [Option.bind_some]
    by_cases h1 : rem = 1
    · subst h1
      have hr0 : r.countP GChild.isCol = 0 := by omega
      simp only [beq_self_eq_true, ite_true]
      rw [frameA [co, c td, c tr, c table, cc] cell [] (by rfl) sd al]
      simp only [Option.bind_some, List.nil_append]
      have := gKids_run r false 0 sd al (by omega)
      simpa using this
    · have hne : (rem == 1) = false := by simpa using h1
      simp only [hne, Bool.false_eq_true, ite_false, run, Option.bind_some]
      have := gKids_run r false (rem - 1) sd al (by omega)
      have hge : decide (rem - 1 ≥ 1) = true := by simp; omega
      simpa [hge] using this

theorem group_neutral (kids : List GChild) : Neutral (groupToks kids) := by
  intro sd al
  unfold groupToks
  have hk : Neutral (gKids true (kids.countP GChild.isCol) kids) := by
    intro sd al
    simpa using gKids_run kids true _ sd al rfl
  exact sandwich _ _ _ false false _ _ (by rfl) hk (by rfl) sd al

theorem sharedKids_run : ∀ (kids : List SChild) (opened : Bool) (sd al : List Tag),
    run ⟨false, sd, (if opened then cell else []) ++ al⟩ (sharedKids opened kids) = some ⟨false, sd, al⟩
  | [], opened, sd, al => by
    cases opened
    · rfl
    · simpa [sharedKids] using frameA [co, c td, c tr, c table, cc] cell [] (by rfl) sd al
  | .raw b :: r, opened, sd, al => by
    simp only [sharedKids]
    rw [run_append, rawToks_neutral b]
    exact sharedKids_run r opened sd al
  | .group g :: r, opened, sd, al => by
    simp only [sharedKids]
    rw [run_append, group_neutral g]
    exact sharedKids_run r opened sd al
  | .col col :: r, opened, sd, al => by
    simp only [sharedKids]
    rw [run_append, run_append, run_append]
    have hopen : run ⟨false, sd, (if opened then cell else []) ++ al⟩ (if opened then [co, c td] else [co, o table, o tr])
        = some ⟨true, sd, [tr, table] ++ al⟩ := by
      cases opened
      · simpa using frame0 [co, o table, o tr] false true [] [tr, table] (by rfl) sd al
      · simpa using run_frame [co, c td] false [] cell ⟨true, [], [tr, table]⟩ sd al (by rfl)
    rw [hopen]
    simp only [Option.bind_some]
    rw [show run ⟨true, sd, [tr, table] ++ al⟩ [o td, cc] = some ⟨false, sd, cell ++ al⟩ from by
      simpa using run_frame [o td, cc] true [] [tr, table] ⟨false, [], cell⟩ sd al (by rfl)]
    simp only [Option.bind_some]
    rw [column_neutral col]
    simp only [Option.bind_some]
    simpa using sharedKids_run r true sd al

theorem soloKids_neutral (split : Bool) : ∀ (kids : List SChild), Neutral (soloKids split kids)
  | [] => neutral_nil
  | .raw b :: r => by
    simp only [soloKids]; exact neutral_append (rawToks_neutral b) (soloKids_neutral split r)
  | .group g :: r => by
    simp only [soloKids]; exact neutral_append (group_neutral g) (soloKids_neutral split r)
  | .col col :: r => by
    simp only [soloKids]
    refine neutral_append ?_ (soloKids_neutral split r)
    intro sd al
    cases split
    · exact sandwich _ _ _ false false _ _ (by rfl) (column_neutral col) (by rfl) sd al
    · exact sandwich _ _ _ false false _ _ (by rfl) (column_neutral col) (by rfl) sd al

theorem cols_neutral (split txt : Bool) (kids : List SChild) : Neutral (colsToks split txt kids) := by
  intro sd al
  unfold colsToks
  simp only
  split
  · cases txt
    · simpa using frame0 [co, o table, o tr, c tr, c table, cc] false false [] [] (by rfl) sd al
    · simpa using frame0 [co, o table, o tr, cc, t, co, c tr, c table, cc] false false [] [] (by rfl) sd al
  · split
    · split
      · exact sandwich _ _ _ false false _ _ (by rfl) (soloKids_neutral split kids) (by rfl) sd al
      · simpa using sharedKids_run kids false sd al
    · exact soloKids_neutral split kids sd al

theorem inner_neutral (bg single txt : Bool) (kids : List SChild) : Neutral (innerToks bg single txt kids) := by
  intro sd al
  unfold innerToks
  cases bg
  · exact sandwich _ _ _ false false _ _ (by rfl) (cols_neutral _ _ _) (by rfl) sd al
  · exact sandwich _ _ _ false false _ _ (by rfl) (cols_neutral _ _ _) (by rfl) sd al

/-- a section restores both stacks and ends inside the Outlook comment exactly when it leaves it pending:
    32 flag combinations, each a closed evaluation of ≤ 12 tokens on either side of the neutral middle -/
theorem emit_run (fw bg custom0 split txt p more : Bool) (kids : List SChild) (hp : p = true → fw = false) (sd al : List Tag) :
    run ⟨p, sd, al⟩ (emitToks fw bg custom0 split txt p more kids).1 = some ⟨(emitToks fw bg custom0 split txt p more kids).2, sd, al⟩ := by
  unfold emitToks
  cases fw <;> cases bg <;> cases custom0 <;> cases p <;> cases more <;>
    first
    | (exfalso; simp at hp; done)
    | exact sandwich _ _ _ _ _ _ _ (by rfl) (inner_neutral _ _ _ _) (by rfl) sd al

theorem section_run (s : Section) (p more : Bool) (hp : p = true → s.fw = false) (sd al : List Tag) :
    run ⟨p, sd, al⟩ (s.emit p more).1 = some ⟨(s.emit p more).2, sd, al⟩ :=
  emit_run _ _ _ _ _ _ _ _ hp sd al

/-! ### hero, body-level raw, tame wrappers, body loop -/

theorem hero_neutral (ls : List Leaf) : Neutral (heroToks ls) := by
  intro sd al
  exact sandwich _ _ _ false false _ _ (by rfl) (leaves_neutral ls) (by rfl) sd al

theorem raw_block_neutral (b : Bool) : Neutral (if b then [] else [o Tag.para, t, c Tag.para]) := by
  intro sd al
  cases b
  · simpa using frame0 [o Tag.para, t, c Tag.para] false false [] [] (by rfl) sd al
  · rfl

/-- a section inside a wrapper is neutral whatever its configuration: full-width or not, with or without a background
    image -/
theorem emitIW_neutral0 (fw bg split txt : Bool) (kids : List SChild) : Neutral (emitIW fw bg false split txt kids) := by
  intro sd al
  have hin := inner_neutral bg split txt kids
  cases fw <;> cases bg
  all_goals
    simp only [emitIW, Bool.false_eq_true, if_false, if_true, Bool.and_true, Bool.and_false, Bool.not_true, Bool.not_false,
      List.nil_append, List.append_nil, List.append_assoc]
  · exact hin sd al
  · exact sandwich [co, o vrect, v vfill, o vtextbox, cc] _ [co, c vtextbox, c vrect, cc] false false _ _ (by rfl) hin (by rfl) sd al
  · have := sandwich [o table, o tbody, o tr, o td] _ [c td, c tr, c tbody, c table] false false _ _ (by rfl) hin (by rfl) sd al
    simpa [List.append_assoc] using this
  · have := sandwich ([o table, o tbody, o tr, o td] ++ [co, o vrect, v vfill, o vtextbox, o table, o tr, o td, cc]) _
      ([co, c td, c tr, c table, c vtextbox, c vrect, cc] ++ [c td, c tr, c tbody, c table]) false false _ _ (by rfl) hin (by rfl) sd al
    simpa [List.append_assoc] using this

/-- … and a full-width section without a background image that carries the background table delegated by the wrapper -/
theorem emitIW_neutral1 (split txt : Bool) (kids : List SChild) : Neutral (emitIW true false true split txt kids) := by
  intro sd al
  have hin := inner_neutral false split txt kids
  simp only [emitIW, Bool.false_eq_true, if_false, if_true, Bool.and_true, Bool.and_false, Bool.not_true, Bool.not_false,
    List.nil_append, List.append_nil, List.append_assoc]
  have := sandwich ([o table, o tbody, o tr, o td] ++ [co, o table, o tr, o td, cc]) _
    ([co, c td, c tr, c table, cc] ++ [c td, c tr, c tbody, c table]) false false _ _ (by rfl) hin (by rfl) sd al
  simpa [List.append_assoc] using this

/-- the background table is delegated only to full-width sections without a background image: every section the children
    loop writes is neutral -/
theorem emitIW_neutral (fw bg dl x split txt : Bool) (kids : List SChild) :
    Neutral (emitIW fw bg (dl && fw && !bg && x) split txt kids) := by
  cases h : (dl && fw && !bg && x)
  · exact emitIW_neutral0 fw bg split txt kids
  · have hfw : fw = true := by cases fw <;> simp_all
    have hbg : bg = false := by cases bg <;> simp_all
    subst hfw; subst hbg
    exact emitIW_neutral1 split txt kids

/-- no child that writes anything: what a wrapper without renderable children holds -/
def onlyBlank (kids : List WChild) : Prop := ∀ c ∈ kids, c = .raw true

/-- between two rows: from any open depth to a fresh cell (with or without a section table) -/
theorem trans_run (d : Depth) (hd : d ≠ .none) (toSec : Bool) (sd al : List Tag) :
    run ⟨false, sd, d.stack ++ al⟩ ([co] ++ rowClose d ++ rowOpen toSec ++ [cc]) = some ⟨false, sd, (Depth.ofSec toSec).stack ++ al⟩ := by
  cases d <;> cases toSec
  all_goals first
    | (exfalso; exact hd rfl)
    | exact frameA _ _ _ (by rfl) sd al

/-- **children loop of a wrapper**: started with `d.stack` on Outlook's stack (and, when nothing is open, only blank raws to
    come), the loop ends in standard mode with exactly the stack of the depth it reports -/
theorem wKids_run (fs dl wb : Bool) : ∀ (kids : List WChild) (d : Depth) (prev : Prev) (sd al : List Tag),
    (d = .none → onlyBlank kids) →
    run ⟨false, sd, d.stack ++ al⟩ (wKids fs dl wb d prev kids).1 = some ⟨false, sd, (wKids fs dl wb d prev kids).2.stack ++ al⟩
  | [], d, _, sd, al, _ => by simp [wKids, run]
  | .raw b :: r, d, prev, sd, al, hb => by
    simp only [wKids]
    rw [run_append]
    have ih := wKids_run fs dl wb r d .raw sd al (fun h c hc => hb h c (List.mem_cons_of_mem _ hc))
    have hhere : run ⟨false, sd, d.stack ++ al⟩
        (if d = .none then rawToks b else [co] ++ rowClose d ++ [cc] ++ rawToks b ++ [co] ++ rowOpen (decide (d = .sec)) ++ [cc]) =
        some ⟨false, sd, d.stack ++ al⟩ := by
      cases d
      · simp only [if_true]; exact rawToks_neutral b sd _
      · have := sandwich' [co, c td, c tr, cc] (rawToks b) [co, o tr, o td, cc] false false [] [td, tr, table] [] [table] []
          [td, tr, table] (by rfl) (rawToks_neutral b) (by rfl) sd al
        simpa [rowClose, rowOpen, Depth.stack, List.append_assoc] using this
      · have := sandwich' [co, c td, c tr, c table, c td, c tr, cc] (rawToks b) [co, o tr, o td, o table, o tr, o td, cc] false false []
          [td, tr, table, td, tr, table] [] [table] [] [td, tr, table, td, tr, table] (by rfl) (rawToks_neutral b) (by rfl) sd al
        simpa [rowClose, rowOpen, Depth.stack, List.append_assoc] using this
    rw [hhere]
    simp only [Option.bind_some]
    exact ih
  | .sec s :: r, d, prev, sd, al, hb => by
    have hd : d ≠ .none := by
      intro h
      have := hb h (.sec s) (List.mem_cons_self ..)
      cases this
    simp only [wKids]
    rw [run_append, run_append]
    cases prev with
    | none =>
      simp only [List.nil_append, run, Option.bind_some]
      rw [emitIW_neutral]
      simp only [Option.bind_some]
      exact wKids_run fs dl wb r d (.sec s.fw) sd al (fun h => absurd h hd)
    | raw =>
      simp only [List.nil_append, run, Option.bind_some]
      rw [emitIW_neutral]
      simp only [Option.bind_some]
      exact wKids_run fs dl wb r d (.sec s.fw) sd al (fun h => absurd h hd)
    | sec pfw =>
      simp only []
      rw [trans_run d hd (!pfw || fs) sd al]
      simp only [Option.bind_some]
      rw [emitIW_neutral]
      simp only [Option.bind_some]
      exact wKids_run fs dl wb r (Depth.ofSec (!pfw || fs)) (.sec s.fw) sd al
        (fun h => by cases hx : (!pfw || fs) <;> simp [Depth.ofSec, hx] at h)

theorem cell_or_sec_ne_none (c : Bool) : (if c = true then Depth.cell else Depth.sec) ≠ Depth.none := by
  cases c <;> simp

theorem depth0_none (w : Wrapper) (h : w.depth0 = .none) : onlyBlank w.kids := by
  unfold Wrapper.depth0 at h
  simp only [] at h
  by_cases hr : (w.kids.any fun c => match c with | .sec _ => true | .raw b => !b) = true
  · exfalso
    rw [hr] at h
    simp only [Bool.not_true, Bool.false_eq_true, if_false] at h
    exact cell_or_sec_ne_none _ h
  · intro c hc
    have hf : (w.kids.any fun c => match c with | .sec _ => true | .raw b => !b) = false := by simpa using hr
    rw [List.any_eq_false] at hf
    have hcc := hf c hc
    cases c with
    | sec s => simp at hcc
    | raw b => cases b <;> simp at hcc ⊢

/-- **the Outlook part of every wrapper is neutral**: whatever mix of sections (full-width or not, background image or
    colour or none) and raw content (blank or not) it holds -/
theorem mid_neutral (w : Wrapper) : Neutral w.mid := by
  intro sd al
  unfold Wrapper.mid
  simp only []
  rw [run_append, run_append]
  have hopen : run ⟨false, sd, al⟩ w.depth0.openToks = some ⟨false, sd, w.depth0.stack ++ al⟩ := by
    cases w.depth0
    · simpa [Depth.stack, Depth.openToks] using frame0 [co, o table, c table, cc] false false [] [] (by rfl) sd al
    · simpa [Depth.stack, Depth.openToks] using frame0 [co, o table, o tr, o td, cc] false false [] [td, tr, table] (by rfl) sd al
    · simpa [Depth.stack, Depth.openToks] using frame0 [co, o table, o tr, o td, o table, o tr, o td, cc] false false [] [td, tr, table, td, tr, table] (by rfl) sd al
  rw [hopen]
  simp only [Option.bind_some]
  rw [wKids_run _ _ _ w.kids w.depth0 .none sd al (depth0_none w)]
  simp only [Option.bind_some]
  generalize (wKids _ _ _ w.depth0 .none w.kids).2 = dn
  cases dn
  · simp [Depth.closeToks, Depth.stack, run]
  · simpa [Depth.closeToks, Depth.stack, rowClose] using frameA [co, c td, c tr, c table, cc] [td, tr, table] [] (by rfl) sd al
  · simpa [Depth.closeToks, Depth.stack, rowClose] using
      frameA [co, c td, c tr, c table, c td, c tr, c table, cc] [td, tr, table, td, tr, table] [] (by rfl) sd al

/-- a wrapper of any configuration consumes a pending comment (if any), restores both stacks and ends in standard mode -/
theorem wrapper_run (w : Wrapper) (p : Bool) (hp : p = true → w.fw = false) (sd al : List Tag) :
    run ⟨p, sd, al⟩ (w.toks p) = some ⟨false, sd, al⟩ := by
  unfold Wrapper.toks
  have hk := mid_neutral w
  cases hfw : w.fw <;> cases p <;>
    first
    | (exfalso; simp [hfw] at hp; done)
    | exact sandwich _ _ _ _ _ _ _ (by rfl) hk (by rfl) sd al

/-- the concatenated block outputs, before the boundary merge -/
def bodyFlat (bs : List Block) (p : Bool) : List Tok := (blockOuts bs p).flatten

theorem secLeave_next (s : Section) (p : Bool) (rest : List Block) :
    (s.emit p (nextConsumes rest)).2 = true → nextConsumes rest = true := by
  unfold Section.emit emitToks secLeave; simp

/-- body loop before the merge: on the tame fragment the machine ends in standard mode with both stacks restored -/
theorem flat_run : ∀ (bs : List Block) (p : Bool) (sd al : List Tag),
    Tame bs p → (p = true → nextConsumes bs = true) →
    run ⟨p, sd, al⟩ (bodyFlat bs p) = some ⟨false, sd, al⟩
  | [], p, sd, al, _, hp => by
    cases p
    · rfl
    · simp [nextConsumes] at hp
  | .section s :: rest, p, sd, al, ht, _ => by
    simp only [bodyFlat, blockOuts, List.flatten_cons]
    rw [run_append, section_run s p _ ht.1]
    simp only [Option.bind_some]
    exact flat_run rest _ sd al ht.2 (secLeave_next s p rest)
  | .wrapper w :: rest, p, sd, al, ht, _ => by
    simp only [bodyFlat, blockOuts, List.flatten_cons]
    rw [run_append, wrapper_run w p ht.1 sd al]
    simp only [Option.bind_some]
    exact flat_run rest false sd al ht.2 (by simp)
  | .hero ls :: rest, p, sd, al, ht, _ => by
    obtain ⟨hp0, ht'⟩ := ht
    subst hp0
    simp only [bodyFlat, blockOuts, List.flatten_cons]
    rw [run_append, hero_neutral ls sd al]
    exact flat_run rest false sd al ht' (by simp)
  | .raw true :: rest, p, sd, al, ht, hp => by
    have hp0 : p = false := by
      cases p
      · rfl
      · simp [nextConsumes] at hp
    subst hp0
    simp only [bodyFlat, blockOuts, List.flatten_cons, ite_true, List.nil_append]
    exact flat_run rest false sd al ht (by simp)
  | .raw false :: rest, p, sd, al, ht, _ => by
    obtain ⟨hp0, ht'⟩ := ht
    subst hp0
    simp only [bodyFlat, blockOuts, List.flatten_cons]
    rw [run_append, raw_block_neutral false sd al]
    exact flat_run rest false sd al ht' (by simp)

/-- an `endif` directly followed by `if mso | IE` can be dropped: whatever the machine accepted, it still accepts, with the same
    result -/
theorem run_cc_co (s r : MS) (xs ys : List Tok) (h : run s (xs ++ cc :: co :: ys) = some r) : run s (xs ++ ys) = some r := by
  rw [run_append] at h ⊢
  cases hx : run s xs with
  | none => simp [hx] at h
  | some s1 =>
    simp only [hx, Option.bind_some] at h ⊢
    simp only [run, stepTok] at h
    cases hm : s1.mso
    · simp [hm] at h
    · simp only [hm, if_true, Option.bind_some, Bool.false_eq_true, if_false] at h
      have : ({ ({ s1 with mso := false } : MS) with mso := true } : MS) = s1 := by cases s1; simp_all
      rw [this] at h
      exact h

theorem eq_dropLast_of_getLast (l : List Tok) (x : Tok) (h : l.getLast? = some x) : l = l.dropLast ++ [x] := by
  have hne : l ≠ [] := by intro hn; simp [hn] at h
  have := List.dropLast_concat_getLast hne
  rw [List.getLast?_eq_getLast hne] at h
  simp only [Option.some.injEq] at h
  rw [← h]; exact this.symm

theorem eq_cons_of_head (l : List Tok) (x : Tok) (h : l.head? = some x) : l = x :: l.tail := by
  cases l with
  | nil => simp at h
  | cons a r => simp at h; simp [h]

/-- the boundary merge keeps whatever the machine concluded about the concatenated blocks -/
theorem join_run : ∀ (outs : List (List Tok)) (held : List Tok) (s r : MS),
    run s (held ++ outs.flatten) = some r → run s (join held outs) = some r
  | [], held, s, r, h => by simpa [join] using h
  | out :: rest, held, s, r, h => by
    unfold join
    by_cases he : out = []
    · simp only [he, if_true]
      apply join_run rest held s r
      simpa [he] using h
    · simp only [he, if_false]
      by_cases hm : held.getLast? = some cc ∧ out.head? = some co
      · simp only [hm, and_self, if_true]
        have h1 := eq_dropLast_of_getLast held cc hm.1
        have h2 := eq_cons_of_head out co hm.2
        rw [h1, h2] at h
        simp only [List.flatten_cons, List.append_assoc, List.singleton_append, List.cons_append] at h
        have h3 := run_cc_co s r held.dropLast (out.tail ++ rest.flatten) h
        rw [run_append] at h3 ⊢
        cases hx : run s held.dropLast with
        | none => simp [hx] at h3
        | some s1 =>
          simp only [hx, Option.bind_some] at h3 ⊢
          exact join_run rest out.tail s1 r h3
      · simp only [hm, if_false]
        simp only [List.flatten_cons, ← List.append_assoc] at h
        rw [List.append_assoc, run_append] at h
        rw [run_append]
        cases hx : run s held with
        | none => simp [hx] at h
        | some s1 =>
          simp only [hx, Option.bind_some] at h ⊢
          exact join_run rest out s1 r h

/-- body loop: on the tame fragment the machine ends in standard mode with both stacks restored -/
theorem body_run (bs : List Block) (p : Bool) (sd al : List Tag)
    (ht : Tame bs p) (hp : p = true → nextConsumes bs = true) :
    run ⟨p, sd, al⟩ (bodyLoop bs p) = some ⟨false, sd, al⟩ := by
  unfold bodyLoop
  apply join_run
  simpa [bodyFlat] using flat_run bs p sd al ht hp

/-- every body keeps to the fragment: `body.go` looks at the next sibling before a section leaves the comment open -/
theorem tame_all : ∀ (bs : List Block) (p : Bool), (p = true → nextConsumes bs = true) → Tame bs p
  | [], _, _ => trivial
  | .section s :: rest, p, hp => by
    refine ⟨fun h => by simpa [nextConsumes] using hp h, ?_⟩
    exact tame_all rest _ (secLeave_next s p rest)
  | .wrapper w :: rest, p, hp => by
    refine ⟨fun h => by simpa [nextConsumes] using hp h, ?_⟩
    exact tame_all rest false (by simp)
  | .hero ls :: rest, p, hp => by
    have hp0 : p = false := by
      cases p
      · rfl
      · simp [nextConsumes] at hp
    exact ⟨hp0, by subst hp0; exact tame_all rest false (by simp)⟩
  | .raw true :: rest, p, hp => by
    have hp0 : p = false := by
      cases p
      · rfl
      · simp [nextConsumes] at hp
    subst hp0
    exact tame_all rest false (by simp)
  | .raw false :: rest, p, hp => by
    have hp0 : p = false := by
      cases p
      · rfl
      · simp [nextConsumes] at hp
    exact ⟨hp0, by subst hp0; exact tame_all rest false (by simp)⟩

/-- **C02 ∧ C03 on the tame fragment of the whole layout model** (sections with any mix of columns, groups
    and raws; full-width and background-image sections; tame wrappers; heroes; raws; Outlook-comment
    chaining and the boundary merge): the standard-client view and the Outlook view of the rendered body are both strictly
    nested, conditional comments alternate, no VML outside a conditional. -/
theorem C02_C03_tame (bs : List Block) (h : Tame bs false) : WF (render bs) := by
  unfold WF render
  rw [run_append, run_append]
  rw [show run ⟨false, [], []⟩ [o div] = some ⟨false, [div], [div]⟩ from rfl]
  simp only [Option.bind_some]
  rw [body_run bs false [div] [div] h (by simp)]
  rfl

/-- … which is every body: any sequence of sections (full-width, background image, chaining or not), wrappers of every
    configuration, heroes and raws is well formed for both kinds of client -/
theorem C02_C03_all (bs : List Block) : WF (render bs) :=
  C02_C03_tame bs (tame_all bs false (by simp))


/-- non-vacuity: chaining section, multi-column section with a group and a raw, a wrapper, a hero -/
example : Tame [.section ⟨false, false, false, false, false, false, [.col ⟨false, [.text]⟩, .raw false, .group [.col ⟨true, [.text]⟩, .col ⟨false, []⟩]]⟩,
                .wrapper ⟨false, true, [.sec ⟨false, false, false, false, true, false, [.col ⟨false, [.text]⟩]⟩, .raw false,
                                        .sec ⟨false, false, true, false, false, false, [.col ⟨false, [.text]⟩]⟩]⟩,
                .section ⟨true, true, false, false, false, false, [.col ⟨false, [.text]⟩]⟩, .hero [.text]] false := by
  simp [Tame, Section.emit, emitToks, secLeave, nextConsumes]

/-- the classes repaired in body.go (section in front of a full-width section, of a hero, of raw content) are well formed now -/
example : WF (render [.section ⟨false, false, false, false, false, false, [.col ⟨false, [.text]⟩]⟩,
                      .section ⟨true, false, false, false, false, false, [.col ⟨false, [.text]⟩]⟩]) := by
  unfold WF; decide
example : WF (render [.section ⟨false, false, false, false, false, false, [.col ⟨false, [.text]⟩]⟩, .hero [.text],
                      .section ⟨false, false, false, false, false, false, [.col ⟨false, [.text]⟩]⟩]) := by
  unfold WF; decide
example : WF (render [.section ⟨false, false, false, false, false, false, [.col ⟨false, [.text]⟩]⟩, .raw false,
                      .section ⟨false, false, false, false, false, false, [.col ⟨false, [.text]⟩]⟩]) := by
  unfold WF; decide

/-- the wrapper classes repaired in wrapper.go (a full-width coloured section inside a wrapper; a wrapper holding only a
    blank raw; a background-image section next to a plain one) are well formed now -/
example : WF (render [.wrapper ⟨false, false, [.sec ⟨true, false, false, false, true, false, [.col ⟨false, [.text]⟩]⟩]⟩]) := by
  unfold WF; decide
example : WF (render [.wrapper ⟨false, false, [.raw true]⟩]) := by
  unfold WF; decide
example : WF (render [.wrapper ⟨false, true, [.sec ⟨false, false, false, false, false, false, [.col ⟨false, [.text]⟩]⟩, .raw false,
                                              .sec ⟨true, true, false, false, false, false, [.col ⟨false, [.text]⟩]⟩]⟩]) := by
  unfold WF; decide
end Gomjml.Layout
