import Gomjml.Core.MapIter
import Gomjml.Core.Tag
import Gomjml.Gen.Misc
import Gomjml.Gen.TextReads
import Gomjml.Core.Tree
/-! # C12 — non-semantic variation of source or options does not change the email (property theorems only) -/
namespace Gomjml.Props.C12

/-- attribute order within a tag: both ways the code reads attributes — the first-match scan of `MJMLNode.GetAttribute`
    and the name→value map built by `NewBaseComponent` — are invariant under permuting a tag's attributes -/
theorem C12_attr_order_lookup {V} (l l' : List (String × V)) (h : l.Perm l') (nd : (l.map Prod.fst).Nodup) (n : String) :
    l.lookup n = l'.lookup n := Gomjml.MapIter.lookup_perm l l' h nd n
theorem C12_attr_order_map {V W} (g : Nat → V → W) (l l' : List (Nat × V)) (h : l.Perm l')
    (nd : (l.map Prod.fst).Nodup) (m0 : Nat → Option W) :
    l.foldl (fun m e => Gomjml.MapIter.upd m e.1 (g e.1 e.2)) m0 = l'.foldl (fun m e => Gomjml.MapIter.upd m e.1 (g e.1 e.2)) m0 :=
  Gomjml.MapIter.keyed_insert_perm g l l' h nd m0

/-- Regenerated fact: every loop over a parser node's attribute slice is one of these — the map builder, the validator (a set
    of reports), the global-attribute collector (keyed inserts), the first-match lookup, and the three reconstructions of
    author HTML inside mj-text / mj-table (author markup: its attribute order is content, not structure) -/
theorem C12_attrs_iterations :
    ∀ r ∈ Gomjml.Gen.Misc.attrsIterations, r.1 ∈
      ["mjml/components.(*MJTableComponent).reconstructHTMLElement", "mjml/components.(*MJTextComponent).reconstructHTMLElement",
       "mjml/components.NewBaseComponent", "mjml/components.validateComponentAttributes",
       "mjml/globals.(*GlobalAttributes).processAttributesElement", "parser.(*MJMLNode).GetAttribute",
       "parser.(*MJMLNode).GetMixedContent"] := by decide

open Gomjml.Tag in
/-- debug tags only add `data-mj-debug-*` attributes: on the byte-exact model of `html.HTMLTag`, adding an attribute the tag
    does not carry yet inserts exactly one ` name="value"` group after the existing attributes; deleting that group gives back
    the original open tag write for write -/
theorem C12_debug_only_adds (t : HTag) (n v : String) (h : ∀ a ∈ t.attrs, a.1 ≠ n) :
    renderOpen (addAttr t n v) =
      (["<", t.name] ++ t.attrs.flatMap attrWrites) ++ attrWrites (n, v) ++ (classWrites t.classes ++ stylesWrites t.styles ++ [">"]) ∧
    renderOpen t = (["<", t.name] ++ t.attrs.flatMap attrWrites) ++ (classWrites t.classes ++ stylesWrites t.styles ++ [">"]) :=
  renderOpen_addAttr_fresh t n v h

/-- Regenerated fact: the debug option is read in exactly one place (`AddDebugAttribute`) and set in one (`WithDebugTags`) -/
theorem C12_debug_sites :
    ∀ f ∈ Gomjml.Gen.Misc.debugTagSites, f ∈ ["mjml.WithDebugTags", "mjml/components.(*BaseComponent).AddDebugAttribute"] := by decide

/-- non-vacuity -/
example : Gomjml.Tag.bytes (Gomjml.Tag.renderOpen (Gomjml.Tag.addAttr ⟨"div", [("role", "x")], ["k"], [("color", "red")]⟩ "data-mj-debug-text" "true"))
    = "<div role=\"x\" data-mj-debug-text=\"true\" class=\"k\" style=\"color:red;\">" := by decide

/-! ### indentation and line breaks between structural elements -/

/-- the tree builder is the inverse of serialisation in both directions (`C18_tree_sound` for the other one): whatever white
    space stands between the elements of the source, the element structure that comes out is the one that went in — character
    data becomes text parts of its parent and nothing else -/
theorem C12_tree_structure (n : Gomjml.Tree.Node) (rest : List Gomjml.Tree.XTok) : Gomjml.Tree.parseDoc (n.toks ++ rest) = some n :=
  Gomjml.Tree.parseDoc_complete n rest

/-- structural components (body, section, column, group, wrapper, hero and the root) whose rendering looks at character data
    at all, and how: the column only at the trimmed text of a column without children; the section only at the text of a section
    without children, and only when its trimmed text is not empty (`needsContentMSOTable`) — so white space between structural
    elements never reaches the output -/
def structuralTextReads : List (String × String × String × String) :=
  [("mjml/components.(*MJColumnComponent).renderColumnWithStylesToWriter", "mjml/components.MJColumnComponent", "Text", "trimmed"),
   ("mjml/components.(*MJSectionComponent).Render", "mjml/components.MJSectionComponent", "Text", "as-is")]

def structuralTypes : List String :=
  ["mjml/components.MJBodyComponent", "mjml/components.MJSectionComponent", "mjml/components.MJColumnComponent",
   "mjml/components.MJGroupComponent", "mjml/components.MJWrapperComponent", "mjml/components.MJHeroComponent",
   "mjml/components.MJHeadComponent"]

/-- **Regenerated fact: no other method of a structural component reads character data** (complete table of the reads of
    `Text`, `MixedContent`, `GetTextContent`, `GetMixedContent` outside the parser, with the receiver type of each function) -/
theorem C12_text_reads :
    ∀ r ∈ Gomjml.Gen.TextReads.textReads, r.2.1 ∈ structuralTypes → r ∈ structuralTextReads := by decide

/-- non-vacuity: the table has the reads of the content components too (they are not structural) -/
example : ("mjml/components.(*MJButtonComponent).Render", "mjml/components.MJButtonComponent", "GetMixedContent()", "as-is") ∈ Gomjml.Gen.TextReads.textReads := by decide

end Gomjml.Props.C12
