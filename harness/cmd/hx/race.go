package main

import (
	"fmt"
	"os"
	"regexp"
	"sort"
	"strings"
)

// raceReports parses the race detector's log of THIS process (GORACE=log_path=…) into the set of (top frame, top frame)
// pairs of the two conflicting accesses.  Empty when not built with -race or no race was reported.
func raceReports() map[string]int {
	out := map[string]int{}
	lp := ""
	for _, kv := range strings.Fields(os.Getenv("GORACE")) {
		if strings.HasPrefix(kv, "log_path=") {
			lp = strings.TrimPrefix(kv, "log_path=")
		}
	}
	if lp == "" {
		return out
	}
	b, err := os.ReadFile(fmt.Sprintf("%s.%d", lp, os.Getpid()))
	if err != nil {
		return out
	}
	frame := regexp.MustCompile(`(?m)^(?:Read|Write|Previous read|Previous write|Atomic read|Atomic write|Previous atomic read|Previous atomic write) at .*\n\s+(\S+)\(`)
	for _, blk := range strings.Split(string(b), "==================") {
		if !strings.Contains(blk, "DATA RACE") {
			continue
		}
		var tops []string
		for _, m := range frame.FindAllStringSubmatch(blk, -1) {
			f := m[1]
			f = strings.TrimPrefix(f, "github.com/preslavrachev/gomjml/")
			tops = append(tops, f)
		}
		sort.Strings(tops)
		out[strings.Join(tops, " <-> ")]++
	}
	return out
}

// raceOnGlobalsOnly reports whether both sides of a race pair touch only the process-wide attribute store.
func raceOnGlobalsOnly(pair string) bool {
	for _, f := range strings.Split(pair, " <-> ") {
		if !strings.HasPrefix(f, "mjml/globals.") {
			return false
		}
	}
	return true
}
