import Gomjml.Props.C17
#print axioms Gomjml.Props.C17.C17_error_iff
#print axioms Gomjml.Props.C17.C17_details_sound
#print axioms Gomjml.Props.C17.C17_each_once
#print axioms Gomjml.Props.C17.C17_always_accepted
#print axioms Gomjml.Props.C17.C17_line_lookup
#print axioms Gomjml.Props.C17.C17_html_unchanged
#print axioms Gomjml.Props.C17.C17_sites
