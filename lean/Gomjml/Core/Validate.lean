import Gomjml.Gen.Allowed
/-! Model of attribute validation (`components.validateComponentAttributes`, `isGloballyAllowedAttribute`) and of the line
    lookup (`parser.lineLookup`).  C17. -/
namespace Gomjml.Validate

/-- `isGloballyAllowedAttribute`, with the two prefix tests as parameters (`String.startsWith` is opaque to the kernel) -/
structure Names where
  isData : String → Bool      -- has prefix "data-"
  isAria : String → Bool      -- has prefix "aria-"

def globally (N : Names) (a : String) : Bool :=
  a != "" && (N.isData a || N.isAria a || a == "mj-class" || a == "css-class" || a == "class")

/-- the attribute table of a tag (none = the tag has no entry: nothing is validated) -/
def tableOf (allowed : List (String × String × String)) (tag : String) : Option (List String) :=
  let rows := allowed.filter (fun r => r.1 == tag)
  if rows.isEmpty then none else some (rows.map (fun r => r.2.1))

def accepted (N : Names) (allowed : List (String × String × String)) (tag a : String) : Bool :=
  match tableOf allowed tag with
  | none => true
  | some tbl => globally N a || tbl.contains a

/-- an element as the validator sees it -/
structure Elem where
  tag : String
  attrs : List String
  line : Nat
deriving Repr

/-- reports for one element, in attribute order: (tag, attribute, line) -/
def reportsOf (N : Names) (allowed : List (String × String × String)) (e : Elem) : List (String × String × Nat) :=
  (e.attrs.filter (fun a => !accepted N allowed e.tag a)).map (fun a => (e.tag, a, e.line))

/-- reports for a document = elements in construction order -/
def reports (N : Names) (allowed : List (String × String × String)) (es : List Elem) : List (String × String × Nat) :=
  es.flatMap (reportsOf N allowed)

/-- **error ⇔ some element carries an attribute its component does not accept** -/
theorem reports_nil_iff (N : Names) (allowed) (es : List Elem) :
    reports N allowed es = [] ↔ ∀ e ∈ es, ∀ a ∈ e.attrs, accepted N allowed e.tag a = true := by
  unfold reports
  rw [List.flatMap_eq_nil_iff]
  constructor
  · intro h e he a ha
    have := h e he
    unfold reportsOf at this
    rw [List.map_eq_nil_iff, List.filter_eq_nil_iff] at this
    simpa using this a ha
  · intro h e he
    unfold reportsOf
    rw [List.map_eq_nil_iff, List.filter_eq_nil_iff]
    intro a ha
    simp [h e he a ha]

/-- **nothing else is reported**: every detail names an element of the document, one of its attributes, its line, and that
    attribute is not accepted -/
theorem reports_sound (N : Names) (allowed) (es : List Elem) (r : String × String × Nat) (h : r ∈ reports N allowed es) :
    ∃ e ∈ es, r.1 = e.tag ∧ r.2.1 ∈ e.attrs ∧ r.2.2 = e.line ∧ accepted N allowed e.tag r.2.1 = false := by
  unfold reports at h
  rw [List.mem_flatMap] at h
  obtain ⟨e, he, hr⟩ := h
  unfold reportsOf at hr
  rw [List.mem_map] at hr
  obtain ⟨a, ha, rfl⟩ := hr
  rw [List.mem_filter] at ha
  exact ⟨e, he, rfl, ha.1, rfl, by simpa using ha.2⟩

/-- **each offending (element, attribute) is listed once** (an XML start tag cannot repeat an attribute name) -/
theorem reportsOf_count (N : Names) (allowed) (e : Elem) (hnd : e.attrs.Nodup) (a : String) (ha : a ∈ e.attrs)
    (hbad : accepted N allowed e.tag a = false) : (reportsOf N allowed e).count (e.tag, a, e.line) = 1 := by
  unfold reportsOf
  have hmem : a ∈ e.attrs.filter (fun a => !accepted N allowed e.tag a) := by
    rw [List.mem_filter]; exact ⟨ha, by simp [hbad]⟩
  have hnd' : (e.attrs.filter (fun a => !accepted N allowed e.tag a)).Nodup := hnd.filter _
  have key : ∀ (l : List String), l.Nodup → a ∈ l → (l.map (fun a => (e.tag, a, e.line))).count (e.tag, a, e.line) = 1 := by
    intro l
    induction l with
    | nil => intro _ h; simp at h
    | cons x r ih =>
      intro hn hm
      simp only [List.nodup_cons] at hn
      simp only [List.map_cons, List.count_cons]
      by_cases hx : x = a
      · subst hx
        have : (r.map (fun a => (e.tag, a, e.line))).count (e.tag, x, e.line) = 0 := by
          rw [List.count_eq_zero]
          intro hc
          rw [List.mem_map] at hc
          obtain ⟨y, hy, hyx⟩ := hc
          simp at hyx; subst hyx
          exact hn.1 hy
        simp [this]
      · have hm' : a ∈ r := by
          simp only [List.mem_cons] at hm
          rcases hm with h | h
          · exact absurd h.symm hx
          · exact h
        have hne : ((e.tag, x, e.line) == (e.tag, a, e.line)) = false := by simp [hx]
        simp [hne, ih hn.2 hm']
  exact key _ hnd' hmem

/-- data-*, aria-*, css-class, mj-class and class are always accepted -/
theorem always_accepted (N : Names) (allowed) (tag a : String) (ha : a ≠ "")
    (h : N.isData a = true ∨ N.isAria a = true ∨ a = "mj-class" ∨ a = "css-class" ∨ a = "class") :
    accepted N allowed tag a = true := by
  unfold accepted
  cases tableOf allowed tag with
  | none => rfl
  | some tbl =>
    have : globally N a = true := by
      unfold globally
      have hne : (a != "") = true := by simpa using ha
      rcases h with h | h | h | h | h <;> simp [hne, h]
    simp [this]

/-! ### line lookup: `lineLookup.Line offset` = 1 + number of newlines before `offset` -/

/-- `newLineLookup`: offset 0 and the offset after every newline (`base` = offset of the first byte of `s`) -/
def nlOffsets (base : Nat) : List UInt8 → List Nat
  | [] => []
  | b :: r => if b == 10 then (base + 1) :: nlOffsets (base + 1) r else nlOffsets (base + 1) r

/-- what both branches of `Line` compute: index of the last line start ≤ offset, plus one -/
def lineImpl (content : List UInt8) (offset : Nat) : Nat :=
  ((0 :: nlOffsets 0 content).filter (· ≤ offset)).length

def lineSpec (content : List UInt8) (offset : Nat) : Nat := 1 + (content.take offset).count 10

theorem nlOffsets_filter (s : List UInt8) : ∀ (base o : Nat), base ≤ o →
    ((nlOffsets base s).filter (· ≤ o)).length = (s.take (o - base)).count 10 := by
  induction s with
  | nil => intro base o _; simp [nlOffsets]
  | cons b r ih =>
    intro base o hle
    by_cases hlt : base < o
    · have hsub : o - base = (o - (base + 1)) + 1 := by omega
      rw [hsub, List.take_succ_cons]
      unfold nlOffsets
      by_cases hb : b == 10
      · have hb' : b = 10 := by simpa using hb
        simp only [hb, if_true]
        rw [List.filter_cons]
        have : (base + 1 ≤ o) := by omega
        simp only [this, decide_true, if_true, List.length_cons]
        rw [ih (base + 1) o (by omega), hb']
        simp [List.count_cons]
      · simp only [hb, Bool.false_eq_true, if_false]
        rw [ih (base + 1) o (by omega)]
        have hb' : ¬ b = 10 := by simpa using hb
        simp [List.count_cons, hb']
    · have he : o = base := by omega
      subst he
      simp only [Nat.sub_self, List.take_zero, List.count_nil]
      -- all offsets are > base
      have hall : ∀ (s : List UInt8) (k : Nat), ∀ x ∈ nlOffsets k s, k < x := by
        intro s
        induction s with
        | nil => intro k x hx; simp [nlOffsets] at hx
        | cons c t iht =>
          intro k x hx
          unfold nlOffsets at hx
          split at hx
          · simp only [List.mem_cons] at hx
            rcases hx with rfl | hx
            · omega
            · have := iht (k + 1) x hx; omega
          · have := iht (k + 1) x hx; omega
      rw [List.length_eq_zero_iff, List.filter_eq_nil_iff]
      intro x hx
      have := hall (b :: r) o x hx
      simp; omega

theorem line_correct (content : List UInt8) (offset : Nat) : lineImpl content offset = lineSpec content offset := by
  unfold lineImpl lineSpec
  rw [List.filter_cons]
  simp only [Nat.zero_le, decide_true, if_true, List.length_cons]
  rw [nlOffsets_filter content 0 offset (Nat.zero_le _)]
  simp; omega

end Gomjml.Validate
