import Gomjml.Core.Validate
import Gomjml.Core.Api
import Gomjml.Core.Lines
import Gomjml.Core.ErrorValue
/-! # C17 — validation errors are exact and never suppress the HTML (property theorems only) -/
namespace Gomjml.Props.C17
open Gomjml.Validate

/-- an invalid-attribute error is reported **iff** some element carries an attribute its component does not accept -/
theorem C17_error_iff (N : Names) (allowed) (es : List Elem) :
    reports N allowed es = [] ↔ ∀ e ∈ es, ∀ a ∈ e.attrs, accepted N allowed e.tag a = true := reports_nil_iff N allowed es

/-- … the details are offending (tag, attribute, line) triples of the document **and nothing else** … -/
theorem C17_details_sound (N : Names) (allowed) (es : List Elem) (r : String × String × Nat) (h : r ∈ reports N allowed es) :
    ∃ e ∈ es, r.1 = e.tag ∧ r.2.1 ∈ e.attrs ∧ r.2.2 = e.line ∧ accepted N allowed e.tag r.2.1 = false :=
  reports_sound N allowed es r h

/-- … **each once** per element -/
theorem C17_each_once (N : Names) (allowed) (e : Elem) (hnd : e.attrs.Nodup) (a : String) (ha : a ∈ e.attrs)
    (hbad : accepted N allowed e.tag a = false) : (reportsOf N allowed e).count (e.tag, a, e.line) = 1 :=
  reportsOf_count N allowed e hnd a ha hbad

/-- data-*, aria-*, css-class, mj-class and class are always accepted, whatever the component -/
theorem C17_always_accepted (N : Names) (allowed) (tag a : String) (ha : a ≠ "")
    (h : N.isData a = true ∨ N.isAria a = true ∨ a = "mj-class" ∨ a = "css-class" ∨ a = "class") :
    accepted N allowed tag a = true := always_accepted N allowed tag a ha h

/-- the line lookup returns 1 + the number of newlines in front of the offset, for every content and offset -/
theorem C17_line_lookup (content : List UInt8) (offset : Nat) : lineImpl content offset = lineSpec content offset :=
  line_correct content offset

/-- the HTML returned alongside the error is the HTML the document yields anyway -/
theorem C17_html_unchanged (w w' : Gomjml.Api.World) (s : Gomjml.Api.St) (d : Gomjml.Api.Doc) (hp : w.parse d = .ok ())
    (hsame : w'.parse = w.parse ∧ w'.attrs = w.attrs ∧ w'.html = w.html ∧ w'.reorder = w.reorder ∧ w'.renderErr = w.renderErr)
    (e : Gomjml.Api.Err) (hr : w.renderErr d = none) (hv : w.validation d = some e) (hv' : w'.validation d = none) :
    ∃ html, (Gomjml.Api.step w s (.render d)).2 = .okValidation html e ∧ (Gomjml.Api.step w' s (.render d)).2 = .ok html :=
  Gomjml.Api.validation_keeps_html w w' s d hp hsame e hr hv hv'

/-- non-vacuity: one accepted, one always-accepted and one offending attribute on a real table -/
def N0 : Names := ⟨fun a => a == "data-x", fun _ => false⟩
example : reports N0 Gomjml.Gen.Allowed.allowed [⟨"mj-text", ["color", "data-x", "bogus"], 7⟩] = [("mj-text", "bogus", 7)] := by
  decide +kernel

/-- Regenerated facts: the validator runs in `NewBaseComponent` and nowhere else, the reporter is invoked only by the
    validator; every component with an attribute table is built by the factory (`mj-breakpoint` has a table but no component) -/
theorem C17_sites :
    Gomjml.Gen.Allowed.validationSites =
      [("report", "mjml/components.validateComponentAttributes"), ("validate", "mjml/components.NewBaseComponent")] ∧
    ∀ r ∈ Gomjml.Gen.Allowed.allowed, r.1 ∈ Gomjml.Gen.Allowed.factoryTags ∨ r.1 = "mj-breakpoint" := by
  decide +kernel

/-! ## the reported line is a line of the ORIGINAL input

    `ParseMJML` rewrites the text three times (comments and blank lines in front of the root are stripped, entities are
    replaced, the content of every mj-text is wrapped into CDATA and its void tags are normalised) and looks the line of an
    element up in the rewritten text, adding the number of stripped lines.  The Models of the three passes are byte-exact
    (correspondence on every run); the statements below hold for **every** input text. -/
open Gomjml.Lines Gomjml.Passes

/-- `wrapMJTextContent` as an edit script: the segments are segments of the input, the output is what the segments write, and
    no replaced piece gains or loses a line feed -/
theorem C17_wrap_moves_no_line (s : List UInt8) :
    srcOf (wrapSegs (s.length + 1) s) = s ∧ dstOf (wrapSegs (s.length + 1) s) = wrap s ∧ LineOk (wrapSegs (s.length + 1) s) :=
  ⟨wrapSegs_src _ s, rfl, wrapSegs_ok _ s⟩

/-- the same for the ampersand pass and for every regenerated `replaceInMarkup` step of `preprocessHTMLEntities` -/
theorem C17_entities_move_no_line (s : List UInt8) :
    (srcOf (escSegs entTable false 0 0 0 s) = s ∧ dstOf (escSegs entTable false 0 0 0 s) = escapeAmp s ∧ LineOk (escSegs entTable false 0 0 0 s)) ∧
    ∀ st ∈ Gomjml.Gen.Parser.entityStepsB,
      srcOf (replSegsM st.1 st.2 s) = s ∧ dstOf (replSegsM st.1 st.2 s) = replaceAllM st.1 st.2 s ∧ LineOk (replSegsM st.1 st.2 s) :=
  ⟨⟨escSegs_src _ s _ _ _ _, escSegs_dst _ s _ _ _ _, escSegs_ok _ s _ _ _ _⟩,
   fun st hst => replSegsM_all _ _ (steps_no_lf st hst) _ s (Nat.le_refl _)⟩

/-- **the reported line is the line of the same place in the input.**  Take any input `s` with a root element (`p` in front
    of it), a place `m` bytes behind the start of the root, and the offset `k` of the same place in the text the decoder reads
    (the same kept byte through all three passes, `PipeRel`).  The line `lineLookup` reports for `k` (`lineImpl`), plus the
    line base `strings.Count(input, "\n") - strings.Count(stripped, "\n")`, is 1 + the number of line feeds in front of
    that place **in the input** -/
theorem C17_reported_line_is_input_line (s p root : List UInt8) (h : splitAtRoot s = some (p, root)) (m k : Nat)
    (hrel : PipeRel s ((trimLeft (dropComments p)).length + m) k) :
    lineImpl (preprocess s) k + (nl s - nl (strip s)) = lineSpec s (p.length + m) := by
  rw [C17_line_lookup]
  unfold lineSpec
  have e1 := pipe_lines s _ k hrel
  have e2 := strip_lines s p root h m
  unfold nl at e1 e2 ⊢
  omega

/-- what the Models of the passes are written with is what the source is written with (regenerated): the needles and CDATA
    delimiters of `wrapMJTextContent`, the literals of the void-tag pattern and of its replacement, the void element names
    (none contains `>` or a capital), and `ParseMJML`'s use of the passes, of the line base and of the decoder's input -/
theorem C17_prepass_source :
    Gomjml.Gen.Parser.wrapConstsB =
      [("cdataEnd", cdEnd), ("cdataEndSafe", cdEndSafe), ("cdataStart", cdStart), ("closeNeedle", stem ++ [62]), ("openNeedle", openN)] ∧
    Gomjml.Gen.Parser.voidNormaliserLits =
      [("buildVoidElementsRegexPattern", "(?i)<(?:"), ("buildVoidElementsRegexPattern", "|"),
       ("buildVoidElementsRegexPattern", ")([^>]*?)/>"), ("normalizeSelfClosingVoidTags", " "), ("normalizeSelfClosingVoidTags", " />")] ∧
    (∀ n ∈ Gomjml.Gen.Parser.voidElementsB, n ≠ [] ∧ ∀ b ∈ n, 97 ≤ b ∧ b ≤ 122) ∧
    Gomjml.Gen.Parser.parsePipeline =
      [("processedContent", "stripNonMSOComments(mjmlContent)"),
       ("strippedLines", "strings.Count(mjmlContent, \"\\n\") - strings.Count(processedContent, \"\\n\")"),
       ("processedContent", "preprocessHTMLEntities(processedContent)"),
       ("processedContent", "wrapMJTextContent(processedContent)"),
       ("contentBytes", "[]byte(processedContent)"),
       ("lookup", "newLineLookup(contentBytes)"),
       ("lookup.lineBase", "strippedLines"),
       ("decoder", "xml.NewDecoder(bytes.NewReader(contentBytes))")] := by
  decide +kernel

/-- non-vacuity of `Rel`: behind a replaced piece of another length a kept byte is related to its shifted copy -/
example : Rel [.keep [1, 2], .repl [3] [4, 5, 6], .keep [7, 10, 8]] 5 7 :=
  ⟨[.keep [1, 2], .repl [3] [4, 5, 6]], [7, 10, 8], [], 2, rfl, by decide, rfl, rfl⟩

/-- **the error value keeps every report**: the reporter closure (first report creates the error, later ones are appended) yields
    one detail per report, in the order of the reports — two reports that look alike (same tag, attribute and line: two elements
    on one line) stay two details; without a report there is no error -/
theorem C17_error_value (rs : List Gomjml.ErrorValue.Report) :
    Gomjml.ErrorValue.collect rs =
      (if rs = [] then none else some ⟨"MJML compilation error", rs.map Gomjml.ErrorValue.detailOf⟩) :=
  Gomjml.ErrorValue.collect_spec rs

end Gomjml.Props.C17
