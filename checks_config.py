"""Per-property configuration of ./check: Lean modules holding the property theorems, audit files, level, assumptions."""

COMMON_TRUSTED = [
    "Lean 4.33.0 kernel (thorough tier: leanchecker re-check of the .olean files)",
    "axioms allowed: propext, Classical.choice, Quot.sound (audited by #print axioms on every run; no sorry/native_decide/bv_decide/own axioms)",
    "factx (harness/cmd/factx): the regenerated site tables are what /repo's source contains (go/packages + go/types)",
    "hx (harness/cmd/hx): generators, canonicalisers and the real-code calls; correspondence is sampled",
]

CHECKS = {
    "C16": {
        "lean_modules": ["Gomjml.Props.C16"],
        "audit": ["Gomjml/Audit/C16.lean"],
        "level": "proof",
        "trusted": ["type-based region analysis assumes no unsafe/reflect writes (census table lists such imports: none)"],
        "assumptions": ["a write to the AST must be syntactically a store whose access path passes through parser.MJMLNode, xml.Attr, xml.Name or MixedContentPart (or append/copy/sort/delete on such a slice) outside package parser",
                        "dynamic half: deep snapshots on fixtures and generated documents only"],
        "proved_vs_tested": "proved: frame theorem for every execution/interleaving, instantiated by the regenerated (empty) AST-write table; tested: deep before/after snapshots through all four API paths and the cache",
    },
}
