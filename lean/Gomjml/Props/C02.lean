import Gomjml.Core.LayoutSpec
import Gomjml.Core.LayoutStd
/-! # C02 — output is well-formed HTML for standard (non-Outlook) clients (property theorems only)

`Layout.render` is the control-flow-faithful skeleton model of body / section / wrapper / column / group / hero / raw
(tied to the implementation by skeleton correspondence on every generated document).  `Spec.StdWF` is the Spec. -/
namespace Gomjml.Props.C02
open Gomjml.Layout Gomjml.Spec

/-- **C02 on the tame fragment, for every tree** (any number of blocks, any nesting the grammar allows): what standard
    clients see is strictly nested, conditionals are delimited and never nested, no VML outside an Outlook conditional. -/
theorem C02_partial (bs : List Block) (h : Tame bs false) : StdWF ((render bs).map Tok.toG) :=
  (wf_spec _ (C02_C03_tame bs h)).1

/-- non-vacuity: chaining section, multi-column section with a group and a raw, a wrapper, a full-width section, a hero -/
example : Tame [.section ⟨false, false, false, false, false, false, [.col ⟨false, [.text]⟩, .raw false, .group [.col ⟨true, [.text]⟩, .col ⟨false, []⟩]]⟩,
                .wrapper ⟨false, true, [.sec ⟨false, false, false, false, true, false, [.col ⟨false, [.text]⟩]⟩, .raw false,
                                        .sec ⟨false, false, true, false, false, false, [.col ⟨false, [.text]⟩]⟩]⟩,
                .section ⟨true, true, false, false, false, false, [.col ⟨false, [.text]⟩]⟩, .hero [.text]] false := by
  simp [Tame, Wrapper.tame, secsOf, Section.emit, emitToks, secLeave, nextConsumes]

/-- **C02, the full statement: for EVERY document of the layout grammar** — any sequence of sections, wrappers of any
    configuration (full-width and background-image sections inside them, delegated backgrounds, blank raws), heroes and raw
    content: what standard clients see is strictly nested, conditional comments are delimited and never nested, no VML outside an
    Outlook conditional.  No side condition. -/
theorem C02_full (bs : List Block) : StdWF ((render bs).map Tok.toG) := (std_spec_all bs).1

/-- **C02 for every body whose wrappers are tame** (the older, weaker form, kept because C03 shares its hypothesis): any sequence of sections (full-width, background image, chaining or not),
    heroes and raw content — the classes `std:mismatch` and `nested-cond` recorded earlier are repaired in body.go -/
theorem C02_all_bodies (bs : List Block) (hw : WrappersTame bs) : StdWF ((render bs).map Tok.toG) :=
  (wf_spec _ (C02_C03_all bs hw)).1

/-- the formerly failing shapes, now well formed -/
example : StdWF ((render [.section ⟨false, false, false, false, false, false, [.col ⟨false, [.text]⟩]⟩,
                          .section ⟨true, false, false, false, false, false, [.col ⟨false, [.text]⟩]⟩]).map Tok.toG) := by
  unfold StdWF; decide
example : StdWF ((render [.section ⟨false, false, false, false, false, false, []⟩,
                          .section ⟨true, true, false, false, false, false, []⟩]).map Tok.toG) := by
  unfold StdWF; decide

/-- a background-image section inside a wrapper (formerly `vml-in-std`: its VML was written outside any conditional) -/
example : StdWF ((render [.wrapper ⟨false, false, [.sec ⟨false, true, false, false, false, false, []⟩]⟩]).map Tok.toG) := by
  unfold StdWF; decide

end Gomjml.Props.C02
