import Gomjml.Core.Tree
import Driver.TagP
/-! driver sub-protocol `tree`: build the AST from an encoding/xml token stream with the Model's `parseDoc` -/
open Gomjml.Tree

namespace Driver.TreeP
open Driver.TagP (unhexS hexOfString)

/-- tokens: `s:<name>:<n1>=<v1>,<n2>=<v2>…` `e:<name>` `c:<text>` `m:<comment>` (every field hex) -/
def parseTok (t : String) : Option XTok :=
  match t.splitOn ":" with
  | ["s", n, attrs] =>
    let as := if attrs == "" then [] else (attrs.splitOn ",").filterMap (fun kv =>
      match kv.splitOn "=" with
      | [k, v] => some (unhexS k, unhexS v)
      | _ => none)
    some (.start (unhexS n) as)
  | ["s", n] => some (.start (unhexS n) [])
  | ["e", n] => some (.stop (unhexS n))
  | ["c", s] => some (.chars (unhexS s))
  | ["m", s] => some (.comment (unhexS s))
  | _ => none

mutual
  partial def showNode : Node → String
    | .mk n a m => "(" ++ hexOfString n ++ " [" ++ ",".intercalate (a.map (fun kv => hexOfString kv.1 ++ "=" ++ hexOfString kv.2)) ++ "] " ++ showParts "" m ++ ")"
  /-- adjacent text parts are merged (the Go code accumulates them in one segment until the next child element) -/
  partial def showParts (pending : String) : List (Part Node) → String
    | [] => if pending == "" then "" else "t:" ++ hexOfString pending ++ " "
    | .text s :: r => showParts (pending ++ s) r
    | .node n :: r => (if pending == "" then "" else "t:" ++ hexOfString pending ++ " ") ++ showNode n ++ " " ++ showParts "" r
end

def handle (args : List String) : String :=
  match args.mapM parseTok with
  | none => "bad-token"
  | some ts =>
    match parseDoc ts with
    | some n => showNode n
    | none => "reject"

end Driver.TreeP
