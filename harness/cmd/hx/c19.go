package main

import (
	"encoding/hex"
	"fmt"
	"github.com/preslavrachev/gomjml/mjml/components"
	"github.com/preslavrachev/gomjml/mjml/options"
	"regexp"
	"strings"

	"github.com/preslavrachev/gomjml/mjml"
)

type htmlTok struct {
	kind  string // o v c t co cc nco ncc
	name  string
	attrs [][2]string
	text  string
}

func unhexStr(s string) string {
	b, _ := hex.DecodeString(s)
	return string(b)
}

func parseTagsLine(line string) []htmlTok {
	var out []htmlTok
	for _, f := range strings.Fields(line) {
		p := strings.SplitN(f, ":", 3)
		t := htmlTok{kind: p[0]}
		switch p[0] {
		case "o", "v":
			t.name = unhexStr(p[1])
			if len(p) > 2 && p[2] != "" {
				for _, kv := range strings.Split(p[2], ",") {
					e := strings.SplitN(kv, "=", 2)
					if len(e) == 2 {
						t.attrs = append(t.attrs, [2]string{unhexStr(e[0]), unhexStr(e[1])})
					}
				}
			}
		case "c":
			t.name = unhexStr(p[1])
		case "t":
			if len(p) > 1 {
				t.text = unhexStr(p[1])
			}
		}
		out = append(out, t)
	}
	return out
}

func (t htmlTok) attr(n string) (string, bool) {
	for _, a := range t.attrs {
		if a[0] == n {
			return a[1], true
		}
	}
	return "", false
}

// eraseStyle prints a token with its style attribute removed (and an empty style dropped)
func (t htmlTok) erased() string {
	var b strings.Builder
	b.WriteString(t.kind + ":" + t.name)
	for _, a := range t.attrs {
		if a[0] == "style" {
			continue
		}
		b.WriteString(" " + a[0] + "=" + a[1])
	}
	if t.kind == "t" {
		b.WriteString(strings.Join(strings.Fields(t.text), " "))
	}
	return b.String()
}

func declsOf(style string) []string {
	var out []string
	for _, d := range strings.Split(style, ";") {
		d = strings.TrimSpace(d)
		if d == "" {
			continue
		}
		kv := strings.SplitN(d, ":", 2)
		if len(kv) == 2 {
			out = append(out, strings.TrimSpace(kv[0])+":"+strings.TrimSpace(kv[1]))
		}
	}
	return out
}

func isSubsequence(sub, full []string) bool {
	i := 0
	for _, f := range full {
		if i < len(sub) && f == sub[i] {
			i++
		}
	}
	return i == len(sub)
}

type inlineRule struct {
	class string
	decls []string // "prop:value"
	// a rule that is NOT a simple class rule (descendant, compound, pseudo-class, element-qualified, id, attribute selector):
	// printed with this selector; none of its declarations may show up anywhere
	decoySel string
}

func (r inlineRule) css() string {
	if r.decoySel != "" {
		var parts []string
		for _, d := range r.decls {
			kv := strings.SplitN(d, ":", 2)
			parts = append(parts, kv[0]+": "+kv[1]+";")
		}
		return r.decoySel + " { " + strings.Join(parts, " ") + " }"
	}
	var parts []string
	for _, d := range r.decls {
		kv := strings.SplitN(d, ":", 2)
		parts = append(parts, kv[0]+": "+kv[1]+";")
	}
	// a rule may target several classes: "ka,kb" prints as the grouped selector ".ka, .kb"
	var sels []string
	for _, c := range strings.Split(r.class, ",") {
		sels = append(sels, "."+c)
	}
	return strings.Join(sels, ", ") + " { " + strings.Join(parts, " ") + " }"
}

var spaceGtRe = regexp.MustCompile(`\s+>`)
var styleAttrRe = regexp.MustCompile(`(?i)\s+style\s*=\s*("[^"]*"|'[^']*')`)

// c19Judge compares a document with an inline block against the same document without it.
func c19Judge(drv *DriverPool, withSrc, withoutSrc string, rules []inlineRule, res *Result, key string) (string, string) {
	hw, ew := renderPlain(withSrc)
	ho, eo := renderPlain(withoutSrc)
	if ew != nil || eo != nil {
		if (ew == nil) != (eo == nil) {
			return "error-differs", fmt.Sprintf("with the inline block: %v, without: %v", ew, eo)
		}
		return "", ""
	}
	lw, err1 := drv.Ask("tags " + hexOf(alphaIDs(hw)))
	lo, err2 := drv.Ask("tags " + hexOf(alphaIDs(ho)))
	if err1 != nil || err2 != nil {
		return "", ""
	}
	tw, to := parseTagsLine(lw), parseTagsLine(lo)
	// drop the <style> element(s) of the head that only exist because of the inline block?  No: the property says the inlined
	// rules are OMITTED from the head, so the two token streams must line up one to one.
	if len(tw) != len(to) {
		// locate the first difference for the message
		i := 0
		for i < len(tw) && i < len(to) && tw[i].erased() == to[i].erased() {
			i++
		}
		a, b := "<end>", "<end>"
		if i < len(tw) {
			a = tw[i].erased()
		}
		if i < len(to) {
			b = to[i].erased()
		}
		cl := "structure-differs"
		if i < len(tw) && tw[i].kind == "o" && tw[i].name == "style" || (i > 0 && i < len(tw) && tw[i].kind == "t" && tw[i-1].name == "style") {
			cl = "inlined-rules-kept-in-head"
		}
		return cl, fmt.Sprintf("token %d: with block %q, without %q", i, short(a, 120), short(b, 120))
	}
	classes := map[string][]string{}
	for _, r := range rules {
		if r.decoySel != "" {
			continue
		}
		for _, c := range strings.Split(r.class, ",") {
			classes[c] = append(classes[c], r.decls...)
		}
	}
	// byte level: with every style attribute cut out of both outputs, the bodies are the same bytes (attribute spelling, quotes,
	// white space inside tags, comments are not the inliner's to touch)
	cut := func(h string) string {
		// white space directly in front of '>' is left over where an attribute was cut (HTMLTag writes `class="x" >` for an empty
		// style): not a difference
		return spaceGtRe.ReplaceAllString(styleAttrRe.ReplaceAllString(bodyOf(alphaIDs(h)), ""), ">")
	}
	if bw, bo := cut(hw), cut(ho); bw != bo {
		at := firstDiff(bw, bo)
		return "bytes-changed-outside-style", fmt.Sprintf("with the style attributes cut out the bodies differ at %d: …%s… vs …%s…", at, around(bw, at), around(bo, at))
	}
	inMso := false
	for i := range tw {
		switch tw[i].kind {
		case "co":
			inMso = true
		case "cc":
			inMso = false
		}
		if tw[i].erased() != to[i].erased() {
			cl := "changed-outside-style"
			if i > 0 && tw[i].kind == "t" && tw[i-1].kind == "o" && tw[i-1].name == "style" {
				cl = "inlined-rules-kept-in-head"
			}
			return cl, fmt.Sprintf("token %d differs outside style attributes: %q vs %q", i, short(tw[i].erased(), 160), short(to[i].erased(), 160))
		}
		if tw[i].kind != "o" && tw[i].kind != "v" {
			continue
		}
		sw, _ := tw[i].attr("style")
		so, _ := to[i].attr("style")
		dw, do := declsOf(sw), declsOf(so)
		cls, _ := tw[i].attr("class")
		var want []string
		for _, c := range strings.Fields(cls) {
			want = append(want, classes[c]...)
		}
		// every original declaration is still there, in order
		if !isSubsequence(do, dw) {
			return "original-style-lost", fmt.Sprintf("<%s class=%q>: style %q lost declarations of %q", tw[i].name, cls, sw, so)
		}
		// completeness: each targeted rule's declarations, in rule order (Outlook-only markup inside conditional comments is
		// not part of the document a CSS inliner sees)
		for _, c := range strings.Fields(cls) {
			if inMso {
				break
			}
			if ds, ok := classes[c]; ok && !isSubsequence(ds, dw) {
				return "declarations-missing|<" + tw[i].name + ">", fmt.Sprintf("<%s class=%q> style=%q lacks %v", tw[i].name, cls, sw, ds)
			}
		}
		// nothing else was added: every declaration comes from the original style or from a rule that targets the element
		for _, d := range dw {
			found := false
			for _, x := range do {
				found = found || x == d
			}
			for _, x := range want {
				found = found || x == d
			}
			if !found {
				return "declaration-from-nowhere", fmt.Sprintf("<%s class=%q>: style %q carries %q, which is neither in the original style %q nor in a simple class rule for its classes", tw[i].name, cls, sw, d, so)
			}
		}
		if len(dw) != len(do)+len(want) && len(want) == 0 && len(dw) != len(do) {
			return "style-added-without-class", fmt.Sprintf("<%s class=%q>: style %q vs %q", tw[i].name, cls, sw, so)
		}
	}
	return "", ""
}

func runC19(res *Result, tier string, seed int64, replay string) {
	res.Rule = "(0) style text → table: the texts of one to three inline blocks, generated from the pieces a CSS rule parser looks at (grouped / repeated / compound selectors, empty and malformed declarations, missing braces, comments, Unicode white space, invalid UTF-8), compiled up to the component tree; RenderOpts.InlineClassStyles compared class by class and declaration by declaration with the Lean Model InlineCss.collect (driver `inlcss`), whose table C19_table_is_spec characterises; (1) EXHAUSTIVE per component: every body component that accepts css-class, in a legal context, with css-class=\"ka kb\", compiled with an inline block (.ka two declarations, .kb one) and without it; (2) seeded grammar documents with random inline rule sets, class names shared between components (css-class, mj-class css-class) and author HTML in mj-text / mj-table / mj-raw / mj-button carrying class attributes with quotes, existing style attributes, void and self-closing tags, '>' inside quoted values; each generated document also with its head written behind its body. Both outputs are tokenised by the Lean lexer with attribute parsing (driver `tags`); the two streams must be identical once style attributes are erased (so the inlined rules must be omitted from the head), every original declaration must survive, and every element whose class list contains a targeted class must carry that rule's declarations in rule order. Non-trivial = document where at least one element matches a rule; distinct by source"
	drv, err := startDriverPool(8)
	if err != nil {
		res.Disagree(Violation{Sig: "driver-missing", What: err.Error()})
		return
	}
	defer drv.Close()
	if replay == "" {
		runC19CSS(res, drv, tier, seed)
	}
	rules := []inlineRule{{class: "ka", decls: []string{"color:#111111", "font-weight:bold"}}, {class: "kb", decls: []string{"text-decoration:underline"}}}
	block := func(rs []inlineRule, multiline bool) string {
		var parts []string
		for _, r := range rs {
			parts = append(parts, r.css())
		}
		sep := " "
		if multiline {
			sep = "\n"
		}
		return `<mj-style inline="inline">` + sep + strings.Join(parts, sep) + sep + `</mj-style>`
	}
	if replay != "" {
		in := replayRaw(replay)
		w, _ := in["source"].(string)
		o, _ := in["without"].(string)
		cl, what := c19Judge(drv, w, o, rules, res, "replay")
		res.Case(w, true)
		if cl != "" {
			res.Violate(Violation{Sig: fmt.Sprint(in["signature"]), Kind: "cell", What: what, Input: in})
		}
		return
	}
	// two rule sets: plain single-class rules, and a grouped rule (with a trailing ';') followed by one rule per class — the
	// declarations of a class are the concatenation of all rules that name it, in rule order
	ruleSets := [][]inlineRule{rules,
		{{class: "ka,kb", decls: []string{"color:#111111"}}, {class: "ka", decls: []string{"margin:0"}}, {class: "kb", decls: []string{"padding:0"}}, {class: "ka", decls: []string{"font-weight:bold"}}},
		// simple rules between rules that are not simple class rules: descendant, compound, child, pseudo-class, pseudo-element,
		// element-qualified, id, attribute and universal selectors — those inline nothing
		{{decoySel: ".ka .kz", decls: []string{"top:1px"}}, {class: "ka", decls: []string{"color:#111111"}}, {decoySel: ".ka.kz", decls: []string{"top:2px"}},
			{decoySel: "p.ka", decls: []string{"top:3px"}}, {decoySel: ".kb:hover", decls: []string{"top:4px"}}, {class: "kb", decls: []string{"text-decoration:underline"}},
			{decoySel: ".ka > b", decls: []string{"top:5px"}}, {decoySel: "#ka", decls: []string{"top:6px"}}, {decoySel: ".kb[data-x]", decls: []string{"top:7px"}},
			{decoySel: ".ka::before", decls: []string{"top:8px"}}, {decoySel: "*", decls: []string{"top:9px"}}, {decoySel: ".ka + .kb", decls: []string{"bottom:1px"}}, {decoySel: "div", decls: []string{"bottom:2px"}}}}
	for _, rules := range ruleSets {
		// (1) per component
		for _, tag := range bodyTags {
			if tag == "mj-raw" {
				continue // css-class is accepted on every component (validator: always accepted); mj-raw emits no element of its own
			}
			for _, ml := range []bool{false, true} {
				head := "<mj-head>" + block(rules, ml) + "</mj-head>"
				with := legalContext(tag, `css-class="ka"`, head)
				without := legalContext(tag, `css-class="ka"`, "")
				if with == "" {
					continue
				}
				cl, what := c19Judge(drv, with, without, rules, res, tag)
				// the class may reach the element through mj-class, the tag's defaults or mj-all instead of its own css-class
				if cl == "" && !ml {
					for _, via := range []struct{ name, headX, attrs string }{
						{"mj-class", `<mj-attributes><mj-class name="m9" css-class="ka"/></mj-attributes>`, `mj-class="m9"`},
						{"tag-default", `<mj-attributes><` + tag + ` css-class="ka"/></mj-attributes>`, ``},
						{"mj-all", `<mj-attributes><mj-all css-class="ka"/></mj-attributes>`, ``},
					} {
						w2 := legalContext(tag, via.attrs, "<mj-head>"+via.headX+block(rules, ml)+"</mj-head>")
						o2 := legalContext(tag, via.attrs, "<mj-head>"+via.headX+"</mj-head>")
						if w2 == "" {
							continue
						}
						res.Case(fmt.Sprintf("%s/via-%s", tag, via.name), true)
						if c2, wh2 := c19Judge(drv, w2, o2, rules, res, tag); c2 != "" {
							cl, what, with, without = c2+"(class via "+via.name+")", wh2, w2, o2
							break
						}
					}
				}
				res.Case(fmt.Sprintf("%s/%v", tag, ml), true)
				res.Count("component=" + tag)
				if cl != "" {
					sig := tag + "|" + cl
					if cl == "inlined-rules-kept-in-head" {
						sig = fmt.Sprintf("head|inlined-rules-kept-in-head|multiline=%v", ml)
					}
					res.Violate(Violation{Sig: sig, Kind: "cell", What: fmt.Sprintf("%s (multi-line block: %v): %s", tag, ml, what), Input: map[string]string{"source": with, "without": without, "signature": sig}})
				}
			}
		}
		// rules that target the classes the renderer itself puts on elements
		{
			gen := []inlineRule{{class: "mj-column-per-100", decls: []string{"outline:1px"}}, {class: "mj-outlook-group-fix", decls: []string{"zoom:1"}},
				{class: "mj-column-per-50", decls: []string{"outline:2px"}}, {class: "mj-column-px-200", decls: []string{"outline:3px"}}}
			body := `<mj-section><mj-column><mj-text>a</mj-text></mj-column></mj-section><mj-section><mj-column><mj-text>b</mj-text></mj-column><mj-column width="200px"><mj-text>c</mj-text></mj-column></mj-section>` +
				`<mj-section><mj-group><mj-column><mj-text>d</mj-text></mj-column><mj-column><mj-text>e</mj-text></mj-column></mj-group></mj-section>`
			with := "<mjml><mj-head>" + block(gen, true) + "</mj-head><mj-body>" + body + "</mj-body></mjml>"
			without := "<mjml><mj-body>" + body + "</mj-body></mjml>"
			cl, what := c19Judge(drv, with, without, gen, res, "generated-classes")
			res.Case("generated-classes", true)
			if cl != "" {
				sig := "generated-classes|" + strings.SplitN(cl, "|", 2)[0]
				res.Violate(Violation{Sig: sig, Kind: "cell", What: "rules on classes the renderer generates: " + what, Input: map[string]string{"source": with, "without": without, "signature": sig}})
			}
		}
		// (2) author HTML and generated documents
		author := []string{
			`<p class="ka">S1E</p>`, `<span class='kb' style="margin:0">x</span>`, `<a class="ka kb" href="http://x/?a=1&amp;b=2" title="a > b">l</a>`,
			`<img class="ka" src="i.png"/>`, `<br class="kb">`, `<td class="ka" style='padding:1px;' data-q="it's">c</td>`, `<div class="zz ka">n</div>`,
			`<p class="kaa">not targeted</p>`, `<p CLASS="ka">upper</p>`, `<input class="kb" disabled>`,
			`<span class='ka' style='font-family:"Helvetica Neue",Arial'>q</span>`, `<span style="font-family:'Open Sans'" class="kb">q2</span>`,
			`<b class=ka>unquoted</b>`, `<i class = "kb" >spaced</i>`,
			// comments with unpaired quotes next to class-bearing tags, unquoted values with slashes, tags over several lines
			`<!-- don't --><p class="ka">after comment</p>`, `<p class="kb">before</p><!-- it's "x -->`, `<!-- a > b --><span class='ka'>gt</span>`,
			`<a href=http://x/a class=ka>slash</a>`, `<img src=i.png class=kb>`, "<p\n  class=\"ka\"\n  id='n'\n>lines</p>", `<p class  =  'ka kb'   id = x >spaces</p>`,
			// white space between '=' and the opening quote, with a '>' inside the quoted value — before and behind the class
			`<p class="ka" title = "a>b">one</p>`, `<p title= 'x > y' class="kb">two</p>`, "<span data-x =\t\"1>2\" class='ka'>t</span>", "<a class=\"ka\" href =\n\"u?a>b\" id=z>l</a>",
			`<p title = "it's > x" class="ka">q</p>`,
			// downlevel-revealed conditional blocks (two comments with ordinary markup between them: every client but Outlook
			// shows it) next to a real Outlook-only comment
			`<!--[if !mso]><!--><p class="ka">revealed</p><!--<![endif]-->`, `<!--[if mso]><p class="zz">hidden</p><![endif]--><!--[if !mso]><!--><span class="kb">shown</span><!--<![endif]-->`,
			`<p id="a" class="ka" hidden data-e="">mixed</p>`, `<P Class="ka" STYLE="Top:0">case</P>`, `<u class="ka" style="">empty style</u>`, `<em class="ka" style="color:blue">no semicolon</em>`,
			// an author style that CONTAINS the text of a targeted declaration — as the tail of another property, as the very same
			// declaration, in another letter case: the rule's declarations are appended all the same
			`<p class="ka" style="background-color:#111111">tail</p>`, `<p class="ka" style="border-color:#111111;x-font-weight:bold;">tails</p>`, `<p class="ka" style="color:#111111;">same</p>`,
			`<p class="ka kb" style="color:#111111;font-weight:bold;text-decoration:underline;">all three</p>`, `<span class="kb" style='text-decoration:underline'>same, no semicolon</span>`,
			`<p class="ka" style="COLOR:#111111;">upper</p>`,
		}
		carriers := []struct{ name, open, close string }{
			{"mj-text", "<mj-text>", "</mj-text>"}, {"mj-button", `<mj-button href="u">`, "</mj-button>"},
			{"mj-table", "<mj-table><tr>", "</tr></mj-table>"}, {"mj-raw", "<mj-raw>", "</mj-raw>"},
		}
		for _, c := range carriers {
			for _, a := range author {
				if c.name == "mj-table" && !strings.HasPrefix(a, "<td") {
					a = "<td>" + a + "</td>"
				}
				inner := c.open + a + c.close
				body := "<mj-section><mj-column>" + inner + "</mj-column></mj-section>"
				with := "<mjml><mj-head>" + block(rules, true) + "</mj-head><mj-body>" + body + "</mj-body></mjml>"
				without := "<mjml><mj-body>" + body + "</mj-body></mjml>"
				cl, what := c19Judge(drv, with, without, rules, res, c.name)
				res.Case(with, strings.Contains(a, `"ka`) || strings.Contains(a, `kb`))
				res.Count("author-html-in=" + c.name)
				if cl != "" {
					sig := "author-html/" + c.name + "|" + strings.SplitN(cl, "|", 2)[0]
					res.Violate(Violation{Sig: sig, Kind: "cell", What: fmt.Sprintf("author HTML %s inside %s: %s", short(a, 60), c.name, what), Input: map[string]string{"source": with, "without": without, "signature": sig}})
				}
			}
		}
	}
	n := 150
	if tier == "thorough" {
		n = 5000
	}
	for i := 0; i < n; i++ {
		r := NewRng(seed, fmt.Sprintf("c19/%d", i))
		d := genRich(r, &RichOpts{Head: true, MaxAttrs: 3, Features: false})
		// no inline block in the generated head; css-class values are ka / kb / kc already
		var rs []inlineRule
		pool := []string{"color:red", "margin:0", "font-size:12px", "border:1px solid #000", "text-align:center", "line-height:1.2"}
		// a grouped rule first (several classes share one declaration block), then rules for single classes
		if r.Bool(1, 2) {
			g := r.Pick([]string{"ka,kb", "kb,kc", "ka,kb,kc", "kc,ka"})
			var ds []string
			for j, m := 0, 1+r.Intn(2); j < m; j++ {
				ds = append(ds, pool[r.Intn(len(pool))])
			}
			rs = append(rs, inlineRule{class: g, decls: ds})
		}
		for _, c := range []string{"ka", "kb", "kc"} {
			if r.Bool(2, 3) {
				var ds []string
				for j, m := 0, 1+r.Intn(3); j < m; j++ {
					ds = append(ds, r.Pick([]string{"color:red", "margin:0", "font-size:12px", "border:1px solid #000", "text-align:center", "line-height:1.2"}))
				}
				rs = append(rs, inlineRule{class: c, decls: ds})
			}
		}
		if len(rs) == 0 {
			continue
		}
		without := d.MJML()
		w2 := d.Clone()
		st := &Node{Tag: "mj-style", Text: "\n" + func() string {
			var p []string
			for _, x := range rs {
				p = append(p, x.css())
			}
			return strings.Join(p, "\n")
		}() + "\n"}
		st.Set("inline", "inline")
		var head *Node
		for _, k := range w2.Kids {
			if k.Tag == "mj-head" {
				head = k
			}
		}
		if head == nil {
			head = &Node{Tag: "mj-head"}
			w2.Kids = append([]*Node{head}, w2.Kids...)
			// the document without the block must have the same (empty) head
			wo := d.Clone()
			wo.Kids = append([]*Node{{Tag: "mj-head", Kids: []*Node{{Tag: "mj-title", Text: ""}}}}, wo.Kids...)
			head.Kids = append(head.Kids, &Node{Tag: "mj-title", Text: ""})
			without = wo.MJML()
		}
		head.Kids = append(head.Kids, st)
		with := w2.MJML()
		cl, what := c19Judge(drv, with, without, rs, res, "gen")
		res.Case(with, true)
		if i%40 == 0 {
			res.Sample(map[string]string{"kind": "generated", "source": short(with, 400)})
		}
		if cl != "" {
			sig := "generated|" + cl
			res.Violate(Violation{Sig: sig, Kind: "input", What: what, Input: map[string]string{"source": with, "without": without, "signature": sig}})
		}
		// the same document with the head written behind the body: "when the head contains an inline block" does not say where
		// in the document the head stands
		if cl == "" {
			headLast := func(src string) string {
				a, b := strings.Index(src, "<mj-head"), strings.Index(src, "</mj-head>")
				e := strings.Index(src, "</mj-body>")
				if a < 0 || b < a || e < b {
					return ""
				}
				b += len("</mj-head>")
				e += len("</mj-body>")
				return src[:a] + src[b:e] + src[a:b] + src[e:]
			}
			if wl, ol := headLast(with), headLast(without); wl != "" && ol != "" {
				cl, what := c19Judge(drv, wl, ol, rs, res, "gen-head-last")
				res.Case(wl, true)
				res.Count("head-behind-body")
				if cl != "" {
					sig := "generated-head-last|" + cl
					res.Violate(Violation{Sig: sig, Kind: "input", What: "head written behind the body: " + what, Input: map[string]string{"source": wl, "without": ol, "signature": sig}})
				}
			}
		}
	}
	_ = mjml.Render
	c19TagCorrespondence(res, drv, tier, seed)
	c19ScanCorrespondence(res, drv, tier, seed)
	if replay == "" {
		c19ClassCorrespondence(res, drv, tier, seed)
	}
}

// c19ScanCorrespondence: the scanner over whole fragments — the real applyInlineStylesToHTML (verif export) against the Lean
// model `InlineScan.scan` (driver `inlscan`), byte for byte: text, comments with quotes and angle brackets, end tags, doctype /
// processing instructions, unterminated pieces, start tags of every spelling.
func c19ScanCorrespondence(res *Result, drv *DriverPool, tier string, seed int64) {
	styles := map[string][]options.InlineStyle{
		"ka": {{Property: "color", Value: "#111111"}, {Property: "font-weight", Value: "bold"}},
		"kb": {{Property: "text-decoration", Value: "underline"}},
	}
	table := hex.EncodeToString([]byte("ka")) + ":" + hex.EncodeToString([]byte("color:#111111;font-weight:bold;")) + " " +
		hex.EncodeToString([]byte("kb")) + ":" + hex.EncodeToString([]byte("text-decoration:underline;"))
	pieces := []string{"text ", "a &amp; b", "<p class=\"ka\">", "</p>", "<br class=kb>", "<img src=i.png class='ka'/>", "<!-- don't -->", "<!-- a > b -->", "<!--", "-->", "<!doctype html>",
		"<?php x ?>", "<a href=http://x/a class=ka>", "</a >", "<", ">", "<b", " class=\"kb\"", "\n", "<td style='x:y' class=\"ka kb\">", "<![CDATA[ <p class=\"ka\"> ]]>", "<p title=\"a > b\" class=ka>", "'", "\"",
		"<span class=\"zz\">", "<!--[if mso]><p class=\"ka\">o</p><![endif]-->", "<!--[if !mso]><!-->", "<!--<![endif]-->", "<![endif]-->", "<!--[if !mso]><!--><p class=\"ka\">r</p><!--<![endif]-->", "<script>if (a < b) { x = '<p class=\"ka\">' }</script>", "<style>.ka > b { }</style>"}
	frags := []string{"<!--[if !mso]><!--><p class=\"ka\">revealed</p><!--<![endif]--><p class=\"kb\">after</p>", "<!--[if mso]><p class=\"ka\">hidden</p><![endif]--><!--[if !mso]><!--><i class=kb>x</i><!--<![endif]-->", "", "plain text", "<p class=\"ka\">one</p>", "<!-- don't --><p class=\"ka\">after</p>", "a < b <p class=ka>", "<p class=\"ka\"", "<!-- unterminated <p class=\"ka\">",
		"</p><p class=\"kb\">x</p><!---->", "<a b='>' class=ka>", "<a b=\"'\" class=ka>x</a><i class=kb>"}
	n := 800
	if tier == "thorough" {
		n = 20000
	}
	for i := 0; i < n; i++ {
		r := NewRng(seed, fmt.Sprintf("c19/frag/%d", i))
		var b strings.Builder
		for j, m := 0, 1+r.Intn(9); j < m; j++ {
			b.WriteString(r.Pick(pieces))
		}
		frags = append(frags, b.String())
	}
	parallel(8, len(frags), func(i int) {
		f := frags[i]
		var real string
		if p := safely(func() { real = components.VerifApplyInlineStylesToHTML(f, styles) }); p != nil {
			res.Violate(Violation{Sig: "panic|inline-scan", Kind: "input", What: fmt.Sprint("applyInlineStylesToHTML panicked: ", p), Input: map[string]string{"fragment": f}})
			return
		}
		line, err := drv.Ask("inlscan " + hex.EncodeToString([]byte(f)) + " " + table)
		res.mu.Lock()
		res.Programs++
		res.DisagreementsChecked++
		res.mu.Unlock()
		parts := strings.Fields(line)
		if err != nil || len(parts) == 0 {
			res.Disagree(Violation{Sig: "driver-failed|inlscan", Kind: "input", What: fmt.Sprint(err, " ", short(line, 80)), Input: map[string]string{"fragment": f}})
			return
		}
		model := ""
		if len(parts) == 2 {
			model = parts[0]
		}
		res.Case("frag|"+f, real != f)
		res.Count("fragment-start-tags=" + parts[len(parts)-1])
		if hex.EncodeToString([]byte(real)) != model {
			mb, _ := hex.DecodeString(model)
			res.Disagree(Violation{Sig: "inline-scan-model-mismatch", Kind: "input", What: fmt.Sprintf("applyInlineStylesToHTML(%q) = %q, the Lean model says %q", f, real, string(mb)), Input: map[string]string{"fragment": f}})
		}
	})
}

// c19TagCorrespondence: the scanner's per-tag step (parse the start tag, add the declarations, write it back) — the real
// inlineStylesInTag (verif export) against the Lean model `InlineTag.inlineTag` (driver `inltag`), byte for byte, on start tags of
// every spelling: quoted / unquoted / valueless attributes, spaces and line breaks around '=', upper-case names, self-closing
// forms, several class / style attributes, garbage.  The model also says whether its parse was `clean` (every byte looked at): the
// theorems of Props.C19 speak about clean parses, so the share of clean tags is part of the evidence.
func c19TagCorrespondence(res *Result, drv *DriverPool, tier string, seed int64) {
	styles := map[string][]options.InlineStyle{
		"ka": {{Property: "color", Value: "#111111"}, {Property: "font-weight", Value: "bold"}},
		"kb": {{Property: "text-decoration", Value: "underline"}},
	}
	table := hex.EncodeToString([]byte("ka")) + ":" + hex.EncodeToString([]byte("color:#111111;font-weight:bold;")) + " " +
		hex.EncodeToString([]byte("kb")) + ":" + hex.EncodeToString([]byte("text-decoration:underline;"))
	tags := []string{
		`<p class="ka">`, `<p class='kb' style="margin:0">`, `<a class="ka kb" href="http://x/?a=1&amp;b=2" title="a > b">`, `<img class="ka" src="i.png"/>`, `<img class="ka" src="i.png" />`,
		`<br class="kb">`, `<td class="ka" style='padding:1px;' data-q="it's">`, `<div class="zz ka">`, `<p class="kaa">`, `<p CLASS="ka">`, `<input class="kb" disabled>`, `<input disabled class="kb">`,
		`<span class='ka' style='font-family:"Helvetica Neue",Arial'>`, `<span style="font-family:'Open Sans'" class="kb">`, `<b class=ka>`, `<i class = "kb" >`, `<u class="ka" style="">`,
		`<em class="ka" style="color:blue">`, `<a href=http://x/a class=ka>`, `<img src=i.png class=kb>`, "<p\n  class=\"ka\"\n  id='n'\n>", `<p class  =  'ka kb'   id = x >`, `<P Class="ka" STYLE="Top:0">`,
		`<p class="ka" class="kb">`, `<p style="a:b" class="ka" style="c:d">`, `<p class=ka/>`, `<p class="ka"/ >`, `<p class="ka" / >`, `<br/>`, `<br class=kb/>`, `<p class>`, `<p class=>`, `<p class="">`,
		`<p class="ka" style>`, `<p class="ka" style=>`, `<p class="ka" style=' '>`, `< p class="ka">`, `<p =x class="ka">`, `<p class="ka" =>`, `<p class="ka`, `<p class="ka" x=">">`, `<>`, `<`, `<p>`, `<p >`, `<p/>`,
		`<p class="ka" a=b"c>`, `<p class='ka" x='>`, `<p	class="ka"	style="x:y;">`, `<p class="ka  kb	ka">`, `<svg:rect class="ka" xlink:href="#a"/>`, `<p class="ka" style="x:y ; ">`, `<p class="ka" style=";">`,
		`<p class="ka" style="background-color:#111111">`, `<p class="ka" style="border-color:#111111;x-font-weight:bold;">`, `<p class="ka" style="color:#111111;">`, `<p class="ka" style="color:#111111;font-weight:bold;">`,
		`<p class="ka kb" style="color:#111111;font-weight:bold;text-decoration:underline;">`, `<span class="kb" style='text-decoration:underline'>`, `<p class="ka" style="COLOR:#111111;">`, `<p class="kb ka" style="font-weight:bold">`,
	}
	n := 1500
	if tier == "thorough" {
		n = 40000
	}
	alphabet := []string{"<", ">", "/", "=", "\"", "'", " ", "\n", "\t", "p", "class", "CLASS", "style", "Style", "ka", "kb", "x", "id", "a:b", ";", "-", "&amp;"}
	for i := 0; i < n; i++ {
		r := NewRng(seed, fmt.Sprintf("c19/tag/%d", i))
		var b strings.Builder
		if r.Bool(9, 10) {
			b.WriteString("<" + r.Pick([]string{"p", "div", "img", "a", "td", "br"}))
			for j, m := 0, r.Intn(5); j < m; j++ {
				b.WriteString(r.Pick([]string{" ", "  ", "\n", "\t", ""}))
				name := r.Pick([]string{"class", "CLASS", "style", "STYLE", "id", "href", "disabled", "data-x"})
				b.WriteString(name)
				switch r.Intn(5) {
				case 0: // no value
				case 1:
					b.WriteString("=" + r.Pick([]string{"ka", "kb", "x", "http://x/a", "a:b;", "a/b/"}))
				default:
					q := r.Pick([]string{"\"", "'"})
					b.WriteString(r.Pick([]string{"=", " = ", "= ", " ="}) + q + r.Pick([]string{"ka", "kb", "ka kb", "kb  ka", "zz", "", "a:b", "a:b;", " c:d ; ", "x > y", "it's", "say \"hi\"", "background-color:#111111", "color:#111111;", "x-font-weight:bold;text-decoration:underline"}) + q)
				}
			}
			b.WriteString(r.Pick([]string{">", " >", "/>", " />", "/ >", "\n>"}))
		} else {
			for j, m := 0, 1+r.Intn(12); j < m; j++ {
				b.WriteString(r.Pick(alphabet))
			}
		}
		tags = append(tags, b.String())
	}
	parallel(8, len(tags), func(i int) {
		t := tags[i]
		var real string
		if p := safely(func() { real = components.VerifInlineStylesInTag(t, styles) }); p != nil {
			res.Violate(Violation{Sig: "panic|inline-tag", Kind: "input", What: fmt.Sprint("inlineStylesInTag panicked: ", p), Input: map[string]string{"tag": t}})
			return
		}
		line, err := drv.Ask("inltag " + hex.EncodeToString([]byte(t)) + " " + table)
		res.mu.Lock()
		res.Programs++
		res.DisagreementsChecked++
		res.mu.Unlock()
		parts := strings.Fields(line)
		if err != nil || len(parts) == 0 {
			res.Disagree(Violation{Sig: "driver-failed|inltag", Kind: "input", What: fmt.Sprint(err, " ", short(line, 80)), Input: map[string]string{"tag": t}})
			return
		}
		model := parts[0]
		state := parts[len(parts)-1]
		if len(parts) == 1 { // empty result
			model, state = "", parts[0]
		}
		res.Case("tag|"+t, real != t)
		res.Count("tag-parse=" + state)
		if hex.EncodeToString([]byte(real)) != model {
			mb, _ := hex.DecodeString(model)
			res.Disagree(Violation{Sig: "inline-tag-model-mismatch", Kind: "input", What: fmt.Sprintf("inlineStylesInTag(%q) = %q, the Lean model says %q", t, real, string(mb)), Input: map[string]string{"tag": t}})
		}
	})
}

func init() { register("C19", runC19) }
