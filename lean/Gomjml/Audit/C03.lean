import Gomjml.Props.C03
#print axioms Gomjml.Props.C03.C03_partial
#print axioms Gomjml.Layout.C02_C03_tame
#print axioms Gomjml.Layout.wf_spec
#print axioms Gomjml.Props.C03.C03_all_bodies
