import Gomjml.Core.Cache
/-! driver sub-protocol `cache`: run the cache Model on a concrete history -/
open Gomjml.Cache

namespace Driver.CacheP

def parseOp (s : String) : Option Op :=
  if s == "t" then some .tick
  else if s == "s" then some .stop
  else if s.startsWith "rcd" then (s.drop 3).toNat?.map (fun d => .render d true 1)     -- cached, debug tags on
  else if s.startsWith "rud" then (s.drop 3).toNat?.map (fun d => .render d false 1)    -- uncached, debug tags on
  else if s.startsWith "rc" then (s.drop 2).toNat?.map (fun d => .render d true 0)
  else if s.startsWith "ru" then (s.drop 2).toNat?.map (fun d => .render d false 0)
  else if s.startsWith "a" then (s.drop 1).toNat?.map (fun d => .advance d)
  else if s.startsWith "T" then (s.drop 1).toInt?.map (fun d => .setTTL d)
  else if s.startsWith "I" then (s.drop 1).toInt?.map (fun d => .setInterval d)
  else none

def showOut : Option (Except Err Html) → String
  | none => "-"
  | some (.ok a) => s!"ok{a}"
  | some (.error e) => s!"err{e}"

def b (x : Bool) : String := if x then "1" else "0"

def run (okbits : String) (hashes : List Nat) (ttl : Int) (ops : List String) : String := Id.run do
  let oks := okbits.toList.map (· == '1')
  let w : World := {
    parse := fun d => if oks.getD d false then .ok d else .error d,
    rend := fun a o => a + 1000 * o,     -- the output names the options it was rendered with
    hash := fun d => hashes.getD d d }
  let keys := hashes.eraseDups
  let mut s := init ttl
  let mut outs : Array String := #[]
  for o in ops do
    match parseOp o with
    | none => outs := outs.push "bad-op"
    | some op =>
      let r := step w s op
      s := r.1
      let size := (keys.filter (fun k => (s.store k).isSome)).length
      outs := outs.push s!"{showOut r.2} p{s.parses} n{size} c{b s.cleaner} T{s.ttl} I{s.interval} k{tickerArg s} sp{s.spawned} ca{s.cancelled}"
  return ";".intercalate outs.toList

def handle (args : List String) : String :=
  match args with
  | okbits :: hs :: ttl :: ops =>
    match ttl.toInt? with
    | none => "bad-ttl"
    | some t =>
      let hashes := (hs.splitOn ",").filterMap String.toNat?
      run okbits hashes t ops
  | _ => "bad-request"

end Driver.CacheP
