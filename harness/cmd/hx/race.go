package main

import (
	"fmt"
	"os"
	"regexp"
	"sort"
	"strings"
)

type raceRep struct {
	pair    string // first non-runtime frame of each of the two conflicting accesses
	globals bool   // one of the two access stacks passes through package mjml/globals (the process-wide attribute store)
	n       int
}

var raceHdr = regexp.MustCompile(`(?m)^(?:Read|Write|Previous read|Previous write|Atomic read|Atomic write|Previous atomic read|Previous atomic write) at `)

// raceReports parses the race detector's log of THIS process (GORACE=log_path=…).  Empty when not built with -race or
// when no race was reported.
func raceReports() []raceRep {
	lp := ""
	for _, kv := range strings.Fields(os.Getenv("GORACE")) {
		if strings.HasPrefix(kv, "log_path=") {
			lp = strings.TrimPrefix(kv, "log_path=")
		}
	}
	if lp == "" {
		return nil
	}
	b, err := os.ReadFile(fmt.Sprintf("%s.%d", lp, os.Getpid()))
	if err != nil {
		return nil
	}
	agg := map[string]*raceRep{}
	frame := regexp.MustCompile(`(?m)^\s+(\S+)\(\)\s*$`)
	for _, blk := range strings.Split(string(b), "==================") {
		if !strings.Contains(blk, "DATA RACE") {
			continue
		}
		// cut at the first "Goroutine … created at": only the two access stacks matter
		if i := strings.Index(blk, "\nGoroutine "); i >= 0 {
			blk = blk[:i]
		}
		locs := raceHdr.FindAllStringIndex(blk, -1)
		var tops []string
		glob := false
		for i, l := range locs {
			end := len(blk)
			if i+1 < len(locs) {
				end = locs[i+1][0]
			}
			top := ""
			for _, m := range frame.FindAllStringSubmatch(blk[l[1]:end], -1) {
				f := strings.TrimPrefix(m[1], "github.com/preslavrachev/gomjml/")
				if strings.HasPrefix(f, "mjml/globals.") {
					glob = true
				}
				if top == "" && !strings.HasPrefix(f, "runtime.") && !strings.HasPrefix(f, "internal/") {
					top = f
				}
			}
			tops = append(tops, top)
		}
		sort.Strings(tops)
		k := strings.Join(tops, " <-> ")
		if agg[k] == nil {
			agg[k] = &raceRep{pair: k}
		}
		agg[k].n++
		agg[k].globals = agg[k].globals || glob
	}
	var out []raceRep
	for _, r := range agg {
		out = append(out, *r)
	}
	sort.Slice(out, func(i, j int) bool { return out[i].pair < out[j].pair })
	return out
}
