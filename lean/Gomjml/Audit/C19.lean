import Gomjml.Props.C19
#print axioms Gomjml.Props.C19.C19_only_styles
#print axioms Gomjml.Props.C19.C19_rendered
#print axioms Gomjml.Props.C19.C19_no_match
#print axioms Gomjml.Props.C19.C19_class_sites
#print axioms Gomjml.Props.C19.C19_tag_parse_lossless
#print axioms Gomjml.Props.C19.C19_tag_append
#print axioms Gomjml.Props.C19.C19_tag_merge
