#!/bin/bash
# seedtest.sh <property> <out-dir with patch.diff/demo_test.go/meta.json> <seed-name> [checks...]
# 1. confirms the seeded change in a scratch worktree (builds, suite passes, demo fails with / passes without)
# 2. applies it to /repo, runs the given checks (default: the property's), reverts /repo
# 3. stores it under /verif/seeded/<seed-name>/
set -u
P=$1; OUT=$2; NAME=$3; shift 3
CHECKS="${*:-$P}"
export GOFLAGS=-mod=mod GOPROXY=off
WT=$(mktemp -d /tmp/seedwt.XXXX)
git -C /repo worktree add -q --detach "$WT" HEAD || exit 2
trap 'git -C /repo worktree remove --force "$WT" >/dev/null 2>&1; git -C /repo checkout -- . 2>/dev/null' EXIT
LOC=$(python3 -c "import json;print(json.load(open('$OUT/meta.json')).get('demo_location','mjml/zz_demo_test.go'))")
case "$LOC" in *.go) ;; *) LOC=mjml/zz_demo_test.go;; esac
echo "== demo WITHOUT the change"
cp "$OUT/demo_test.go" "$WT/$LOC"
(cd "$WT" && go test -vet=off -count=1 ./$(dirname $LOC)/ -run 'Demo|C[0-9][0-9]|Seed' 2>&1 | tail -3)
echo "== apply, build, suite"
rm "$WT/$LOC"
git -C "$WT" apply "$OUT/patch.diff" || { echo "patch does not apply"; exit 2; }
(cd "$WT" && go build ./... && go test -vet=off -count=1 ./... 2>&1 | grep -v "no test files" | grep -v "^ok" | head -5; echo "suite exit: done")
echo "== demo WITH the change"
cp "$OUT/demo_test.go" "$WT/$LOC"
(cd "$WT" && go test -vet=off -count=1 ./$(dirname $LOC)/ -run 'Demo|C[0-9][0-9]|Seed' 2>&1 | tail -4)
echo "== checks against /repo with the change applied"
git -C /repo apply "$OUT/patch.diff" || { echo "patch does not apply to /repo"; exit 2; }
EVB=$(mktemp -d /tmp/evb.XXXX); cp /verif/evidence/*.json "$EVB"/   # evidence of a seeded run is never kept
for c in $CHECKS; do (cd /verif && timeout 1200 ./check $c 2>&1 | grep -v "^KNOWN-FINDING" | tail -4); done
git -C /repo checkout -- .
cp "$EVB"/*.json /verif/evidence/; rm -rf "$EVB"
mkdir -p /verif/seeded/$NAME
cp "$OUT/patch.diff" "$OUT/demo_test.go" "$OUT/meta.json" /verif/seeded/$NAME/
echo "== stored in /verif/seeded/$NAME"
