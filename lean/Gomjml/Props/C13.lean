import Gomjml.Core.Cache
import Gomjml.Core.CacheConc
import Gomjml.Gen.Misc
/-! # C13 — the AST cache is transparent

Property theorems only (model and lemmas: `Gomjml/Core/Cache.lean`). -/
namespace Gomjml.Props.C13
open Gomjml.Cache

/-- **C13, full history form.** From process start, for every finite history of cached / uncached compilations,
    time advances, cleanup sweeps, stop/restart and configuration calls — each compilation with its own render options
    (debug tags …) — every compilation returns exactly what the stateless compiler returns for that document and those options — provided the 64-bit template hash does not collide on the documents used. -/
theorem C13_transparent_from_start (w : World) (hinj : ∀ d d', w.hash d = w.hash d' → d = d') (ttl : Int)
    (ops : List Op) : (runOps w (init ttl) ops).2 = expected w ops :=
  C13_transparent w hinj ops (init ttl) (inv_init w ttl)

/-- the same from any state satisfying the invariant (which every reachable state does) -/
theorem C13_transparent_inv (w : World) (hinj : ∀ d d', w.hash d = w.hash d' → d = d') (ops : List Op) (s : CS)
    (h : CInv w s) : (runOps w s ops).2 = expected w ops := C13_transparent w hinj ops s h

/-- a document that fails to parse is never cached -/
theorem C13_failed_parse_not_cached (w : World) (s : CS) (d : Doc) (o : Opt) (er : Err) (hp : w.parse d = .error er)
    (hs : s.store (w.hash d) = none) : (step w s (.render d true o)).1.store (w.hash d) = none :=
  failed_parse_not_cached w s d o er hp hs

/-- every stored entry is the successful parse of a document with that key (so nothing unparsable is ever stored) -/
theorem C13_store_sound (w : World) (ttl : Int) (ops : List Op) (k : CKey) (e : Entry)
    (h : (runOps w (init ttl) ops).1.store k = some e) : ∃ d, w.hash d = k ∧ w.parse d = .ok e.ast :=
  (inv_reachable w ttl ops).sound k e h

/-- non-vacuity: an injective world and a history with a miss, a hit, an expiry and a sweep -/
def wEx : World := { parse := fun d => if d = 2 then .error 7 else .ok (d + 10), rend := fun a o => a * 2 + 1000 * o, hash := fun d => d }
example : (∀ d d', wEx.hash d = wEx.hash d' → d = d') := by intro d d' h; exact h
example : (runOps wEx (init 100) [.render 0 true 0, .render 0 true 0, .render 2 true 0, .advance 100, .render 0 true 0, .tick, .stop,
                                   .render 1 true 0]).2
    = [some (.ok 20), some (.ok 20), some (.error 7), none, some (.ok 20), none, none, some (.ok 22)] := by decide
/-- … and with the options changing from one compilation to the next over one cached tree (debug tags on, off, uncached):
    each compilation gets the output for ITS options -/
example : (runOps wEx (init 100) [.render 0 true 1, .render 0 true 0, .render 0 false 1, .render 0 true 1]).2
    = [some (.ok 1020), some (.ok 20), some (.ok 1020), some (.ok 1020)] := by decide

/-- **The full statement (no injectivity hypothesis) is false of the code**: the cache compares nothing but the hash.
    Two documents with one key: the second cached compilation returns the first document's HTML.
    Recorded as finding C13-F1 (replayed on the implementation through the `VerifHash` hook). -/
def wColl : World := { parse := fun d => .ok d, rend := fun a _ => a, hash := fun _ => 0 }
example : (runOps wColl (init 100) [.render 0 true 0, .render 1 true 0]).2 ≠ expected wColl [.render 0 true 0, .render 1 true 0] := by
  decide

/-! ### under concurrency -/

/-- **C13 for concurrent compilations, every schedule**: any number of compilations in flight — cached and uncached, any
    documents and options — interleaved step by step (`Load`, expiry test, `Delete`, joining the single-flight, parsing, `Store`,
    hand-over) with each other, with time passing, and with an environment that may delete any entry at any moment (the cleanup
    goroutine whatever it does, running, stopped or restarted): a compilation that has returned has returned what the stateless
    compiler returns for its document and options.  (Collision-free keys, as in the sequential statement.) -/
theorem C13_concurrent (w : World) (j : Gomjml.CacheConc.Job) (hinj : ∀ d d', w.hash d = w.hash d' → d = d') (ttl : Int)
    (σ : List Gomjml.CacheConc.Ev) (t : Nat) (o : Except Err Html)
    (h : (Gomjml.CacheConc.run w j (Gomjml.CacheConc.init ttl) σ).pc t = .done o) : o = spec w (j.doc t) (j.opt t) :=
  Gomjml.CacheConc.conc_transparent w j hinj ttl σ t o h

/-- at every moment of every schedule every stored tree is the parse of a document with that key -/
theorem C13_concurrent_store_sound (w : World) (j : Gomjml.CacheConc.Job) (hinj : ∀ d d', w.hash d = w.hash d' → d = d') (ttl : Int)
    (σ : List Gomjml.CacheConc.Ev) (k : CKey) (e : Entry) (h : (Gomjml.CacheConc.run w j (Gomjml.CacheConc.init ttl) σ).store k = some e) :
    ∃ d, w.hash d = k ∧ w.parse d = .ok e.ast := Gomjml.CacheConc.conc_store_sound w j hinj ttl σ k e h

/-- non-vacuity: three compilations of one document (one with debug tags), interleaved so that the first becomes the leader, the
    second waits for it, an eviction happens in between, and the third arrives after expiry: all three return their own output -/
def jEx : Gomjml.CacheConc.Job := { doc := fun _ => 0, opt := fun t => if t = 1 then 1 else 0, cached := fun _ => true }
def sEx : Gomjml.CacheConc.St :=
  Gomjml.CacheConc.run wEx jEx (Gomjml.CacheConc.init 100)
    [.thread 0, .thread 0, .thread 0, .thread 1, .thread 1, .thread 1, .thread 0, .thread 0, .evict 0, .thread 0, .thread 1,
     .thread 2, .thread 2, .thread 2, .thread 2, .thread 2, .thread 2]
example : (sEx.pc 0).doneOk = some 20 ∧ (sEx.pc 1).doneOk = some 1020 ∧ (sEx.pc 2).doneOk = some 20 := by decide

/-- Regenerated fact: the cache map is stored to at exactly one site, inside `parseAST` (after a successful parse);
    deleted from only in `parseAST` (expired on lookup) and in the cleanup goroutine. -/
theorem C13_store_sites :
    Gomjml.Gen.Misc.syncMapOps.filter (fun r => r.2.2 == "Store" || r.2.2 == "Swap" || r.2.2 == "LoadOrStore" || r.2.2 == "CompareAndSwap")
      = [("mjml.parseAST", "astCache", "Store")] := by decide

/-- Regenerated fact: **the cache key is computed from the template as the caller passed it** — `hashTemplate` is called in
    one place, on the parameter itself, and the parameter is never assigned to.  A key over a trimmed, normalised or
    re-encoded copy (three of the seeded changes: documents that differ in leading blank lines share a tree and report each
    other's line numbers) breaks this theorem. -/
theorem C13_key_is_the_template : Gomjml.Gen.Misc.cacheKeyArgs = [("mjml.parseAST", "mjmlContent")] := by decide

end Gomjml.Props.C13
