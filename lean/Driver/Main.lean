import Gomjml.Core.Layout
import Gomjml.Core.Lexer
import Driver.CacheP
import Driver.SfP
/-! Line-protocol driver (E3): first word selects a sub-protocol, one output line per input line.
    Imports only core-only Model/Spec modules so that it links as a `lean_exe`. -/
open Gomjml

namespace Driver

def handle (line : String) : String :=
  match line.splitOn " " with
  | ["ping"] => "pong"
  | "cache" :: args => Driver.CacheP.handle args
  | "sf" :: args => Driver.SfP.handle args
  | _ => "bad-request"

partial def loop (hin hout : IO.FS.Stream) : IO Unit := do
  let line ← hin.getLine
  if line.isEmpty then return ()
  let l := if line.endsWith "\n" then (line.dropEnd 1).toString else line
  hout.putStrLn (handle l)
  hout.flush
  loop hin hout

end Driver

def main : IO Unit := do
  Driver.loop (← IO.getStdin) (← IO.getStdout)
