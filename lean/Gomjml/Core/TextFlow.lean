import Gomjml.Core.Amp
/-! # mj-text: from the element's character data to the inner HTML (`MJTextComponent.buildRawInnerHTML`,
`collapseTextWhitespace`, `restoreHTMLEntities` in `mjml/components/text.go`)

The content of mj-text reaches the component as one character-data part (the parser wraps it in CDATA).  The component
collapses every run of blanks / tabs / line breaks to one blank, removes blanks at both ends and writes the no-break space as
`&#xA0;`.  On valid UTF-8 (what the XML layer delivers) the Go loop over runes touches the four ASCII bytes only, so the Model
is on bytes.  Tied to the implementation by the correspondence run `textflow` of `hx C04`. -/
namespace Gomjml.TextFlow
open Gomjml.Amp

def isWs (b : B) : Bool := b == 32 || b == 10 || b == 13 || b == 9

/-- `collapseTextWhitespace`; the flag: the previous byte written was the blank of a run -/
def collapse : Bool → List B → List B
  | _, [] => []
  | last, b :: r =>
    if isWs b then (if last then collapse true r else 32 :: collapse true r)
    else b :: collapse false r

/-- `strings.TrimLeft(s, " ")` / `strings.TrimRight(s, " ")` -/
def trimLeftSp (s : List B) : List B := s.dropWhile (· == 32)
def trimRightSp (s : List B) : List B := (s.reverse.dropWhile (· == 32)).reverse

def nbspEnt : List B := [38, 35, 120, 65, 48, 59]      -- "&#xA0;"

/-- `restoreHTMLEntities`: `strings.ReplaceAll(text, " ", "&#xA0;")` -/
def restore : List B → List B
  | 0xC2 :: 0xA0 :: r => nbspEnt ++ restore r
  | b :: r => b :: restore r
  | [] => []

/-- `buildRawInnerHTML` on a single character-data part -/
def textInner (s : List B) : List B := restore (trimRightSp (trimLeftSp (collapse false s)))

/-! ### what collapsing does and does not do -/

/-- the bytes that are not white space -/
def ink (s : List B) : List B := s.filter (fun b => !isWs b)

/-- **nothing but white space is touched**: the other bytes come out, all of them, in order -/
theorem collapse_ink : ∀ (s : List B) (last : Bool), ink (collapse last s) = ink s
  | [], _ => rfl
  | b :: r, last => by
    unfold collapse
    by_cases hb : isWs b = true
    · simp only [hb, if_true]
      cases last
      · simp only [Bool.false_eq_true, if_false]
        have : isWs 32 = true := by decide
        simp [ink, this, hb]
        exact collapse_ink r true
      · simp only [if_true]
        simp [ink, hb]
        exact collapse_ink r true
    · have hb' : isWs b = false := by simpa using hb
      simp only [hb', Bool.false_eq_true, if_false]
      simp [ink, hb']
      exact collapse_ink r false

/-- what is left of the white space: single blanks — no tab, no line break, never two blanks in a row (and none right
    behind a blank that was already written: the flag) -/
def tidyWs : Bool → List B → Bool
  | _, [] => true
  | last, b :: r => if b == 32 then (!last && tidyWs true r) else (!isWs b && tidyWs false r)

theorem collapse_tidy : ∀ (s : List B) (last : Bool), tidyWs last (collapse last s) = true
  | [], _ => by simp [collapse, tidyWs]
  | b :: r, last => by
    unfold collapse
    by_cases hb : isWs b = true
    · simp only [hb, if_true]
      cases last
      · simp only [Bool.false_eq_true, if_false, tidyWs, beq_self_eq_true, if_true, Bool.not_false, Bool.true_and]
        exact collapse_tidy r true
      · simp only [if_true]
        exact collapse_tidy r true
    · have hb' : isWs b = false := by simpa using hb
      have h32 : (b == 32) = false := by
        cases h : b == 32
        · rfl
        · have : b = 32 := by simpa using h
          subst this; simp [isWs] at hb'
      simp only [hb', Bool.false_eq_true, if_false, tidyWs, h32, Bool.not_false, Bool.true_and]
      exact collapse_tidy r false

/-- collapsing again changes nothing -/
theorem collapse_idem : ∀ (s : List B) (last : Bool), collapse last (collapse last s) = collapse last s
  | [], _ => by simp [collapse]
  | b :: r, last => by
    by_cases hb : isWs b = true
    · cases last
      · have h32 : isWs 32 = true := by decide
        rw [show collapse false (b :: r) = 32 :: collapse true r from by simp [collapse, hb]]
        rw [show collapse false (32 :: collapse true r) = 32 :: collapse true (collapse true r) from by simp [collapse, h32]]
        rw [collapse_idem r true]
      · rw [show collapse true (b :: r) = collapse true r from by simp [collapse, hb]]
        exact collapse_idem r true
    · have hb' : isWs b = false := by simpa using hb
      rw [show collapse last (b :: r) = b :: collapse false r from by simp [collapse, hb']]
      rw [show collapse last (b :: collapse false r) = b :: collapse false (collapse false r) from by simp [collapse, hb']]
      rw [collapse_idem r false]

theorem dropWhile_sp_ink (s : List B) : ink (s.dropWhile (· == 32)) = ink s := by
  induction s with
  | nil => rfl
  | cons b r ih =>
    by_cases h : b = 32
    · subst h
      have : isWs 32 = true := by decide
      simp [List.dropWhile, ink, this] at ih ⊢
      exact ih
    · have : (b == 32) = false := by simpa using h
      simp [List.dropWhile, this]

theorem ink_reverse (s : List B) : ink s.reverse = (ink s).reverse := by
  simp [ink, List.filter_reverse]

/-- trimming the ends removes blanks only -/
theorem trim_ink (s : List B) : ink (trimRightSp (trimLeftSp s)) = ink s := by
  unfold trimRightSp trimLeftSp
  rw [ink_reverse, dropWhile_sp_ink, ink_reverse, List.reverse_reverse, dropWhile_sp_ink]

/-- a text without no-break spaces is written as it is -/
theorem restore_plain : ∀ (s : List B), (∀ b ∈ s, b ≠ 0xC2) → restore s = s
  | [], _ => rfl
  | b :: r, h => by
    have hb : b ≠ 0xC2 := h b (by simp)
    have ih := restore_plain r (fun x hx => h x (by simp [hx]))
    unfold restore
    split
    · rename_i heq
      simp only [List.cons.injEq] at heq
      exact absurd heq.1 hb
    · rename_i heq
      simp only [List.cons.injEq] at heq
      obtain ⟨rfl, rfl⟩ := heq
      rw [ih]
    · rename_i heq; simp at heq

/-- **the inner HTML of an mj-text keeps every byte of the author's text that is not white space, in order** (texts
    without no-break spaces; with them, each is written as `&#xA0;`) -/
theorem textInner_ink (s : List B) (h : ∀ b ∈ s, b ≠ 0xC2) : ink (textInner s) = ink s := by
  unfold textInner
  have hsub : ∀ b ∈ trimRightSp (trimLeftSp (collapse false s)), b ≠ 0xC2 := by
    intro b hb hc
    subst hc
    have hw : isWs 0xC2 = false := by decide
    have hin : (0xC2 : B) ∈ ink (trimRightSp (trimLeftSp (collapse false s))) := by
      simp only [ink, List.mem_filter, hb, hw, Bool.not_false, and_self]
    rw [trim_ink, collapse_ink] at hin
    simp only [ink, List.mem_filter] at hin
    exact h _ hin.1 rfl
  rw [restore_plain _ hsub, trim_ink, collapse_ink]

end Gomjml.TextFlow
