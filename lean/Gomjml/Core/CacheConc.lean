import Gomjml.Core.Cache
/-! # The AST cache under concurrency

Any number of compilations run at the same time (`parseAST` of `mjml/render.go`, step by step), each with its own document,
options and cache flag, interleaved with each other, with the passing of time, and with an **environment that may delete any
cache entry at any moment** — which over-approximates the background cleanup (whatever it sweeps, whenever, however often it
is stopped and restarted) and the delete-on-expired of other compilations.

Atomic steps of a cached compilation: `Load` the entry → compare `time.Now()` with its expiry (hit: return the stored tree) →
`Delete` the expired entry → join the single-flight for the key (become its leader, or wait for the registered leader) →
leader: parse → `Store` on success → publish the result and retire → waiters read the leader's result.  (The finer steps of
`singleflightDo` — mutex, WaitGroup, deferred delete — are the subject of `SingleFlight.lean`; here joining and retiring are
atomic.)

Theorem `conc_transparent`: **for every schedule, every compilation that has returned has returned exactly what the stateless
compiler returns for its document and options** — provided the key function does not collide on the documents in use. -/
namespace Gomjml.CacheConc
open Gomjml.Cache

abbrev Tid := Nat

inductive PC
  | start
  | loaded (e : Option Entry)            -- after `astCache.Load`
  | expired                              -- the loaded entry failed the `time.Now().Before(expires)` test; about to `Delete`
  | join                                 -- about to enter `singleflightDo`
  | leader                               -- registered as the leader for its key; about to call the parser
  | parsed (r : Except Err Ast)          -- parser returned; about to `Store` (on success)
  | publish (r : Except Err Ast)         -- stored; about to hand the result over and retire
  | waiting (l : Tid)                    -- found leader `l` registered for its key
  | done (out : Except Err Html)
deriving Repr

structure St where
  pc : Tid → PC
  store : CKey → Option Entry
  sf : CKey → Option Tid                 -- sfCalls: key ↦ registered leader
  res : Tid → Option (Except Err Ast)    -- the result published by leader t
  now : Int
  ttl : Int

/-- what each compilation was asked to do: constant per thread -/
structure Job where
  doc : Tid → Doc
  opt : Tid → Opt
  cached : Tid → Bool

def upd {β} (f : Nat → β) (a : Nat) (b : β) : Nat → β := fun x => if x = a then b else f x
theorem upd_apply {β} (f : Nat → β) (a : Nat) (b : β) (x : Nat) : upd f a b x = if x = a then b else f x := rfl

def out (w : World) (o : Opt) (r : Except Err Ast) : Except Err Html := r.map (fun a => w.rend a o)

inductive Ev
  | thread (t : Tid)                     -- one atomic step of compilation t
  | evict (k : CKey)                     -- the environment deletes the entry under k (sweeper, other deleters, anything)
  | advance (δ : Nat)                    -- time passes
  | setTTL (d : Int)                     -- configuration changes between compilations
deriving Repr

/-- one atomic step of thread `t`; `none` = not enabled -/
def stepT (w : World) (j : Job) (s : St) (t : Tid) : Option St :=
  let k := w.hash (j.doc t)
  match s.pc t with
  | .start =>
    if j.cached t then some { s with pc := upd s.pc t (.loaded (s.store k)) }
    else some { s with pc := upd s.pc t (.done (spec w (j.doc t) (j.opt t))) }
  | .loaded (some e) =>
    if s.now < e.expires then some { s with pc := upd s.pc t (.done (.ok (w.rend e.ast (j.opt t)))) }
    else some { s with pc := upd s.pc t .expired }
  | .loaded none => some { s with pc := upd s.pc t .join }
  | .expired => some { s with store := upd s.store k none, pc := upd s.pc t .join }
  | .join =>
    match s.sf k with
    | some l => some { s with pc := upd s.pc t (.waiting l) }
    | none => some { s with sf := upd s.sf k (some t), pc := upd s.pc t .leader }
  | .leader => some { s with pc := upd s.pc t (.parsed (w.parse (j.doc t))) }
  | .parsed (.ok a) => some { s with store := upd s.store k (some ⟨a, s.now + s.ttl, s.now, s.ttl⟩), pc := upd s.pc t (.publish (.ok a)) }
  | .parsed (.error e) => some { s with pc := upd s.pc t (.publish (.error e)) }
  | .publish r => some { s with res := upd s.res t (some r), sf := upd s.sf k none, pc := upd s.pc t (.done (out w (j.opt t) r)) }
  | .waiting l =>
    match s.res l with
    | some r => some { s with pc := upd s.pc t (.done (out w (j.opt t) r)) }
    | none => none
  | .done _ => none

def step (w : World) (j : Job) (s : St) : Ev → St
  | .thread t => (stepT w j s t).getD s
  | .evict k => { s with store := upd s.store k none }
  | .advance δ => { s with now := s.now + δ }
  | .setTTL d => { s with ttl := d }

def run (w : World) (j : Job) (s : St) : List Ev → St
  | [] => s
  | e :: r => run w j (step w j s e) r

def init (ttl : Int) : St :=
  { pc := fun _ => .start, store := fun _ => none, sf := fun _ => none, res := fun _ => none, now := 0, ttl := ttl }

/-- the invariant -/
structure CCInv (w : World) (j : Job) (s : St) : Prop where
  store_sound : ∀ k e, s.store k = some e → ∃ d, w.hash d = k ∧ w.parse d = .ok e.ast
  loaded_sound : ∀ t e, s.pc t = .loaded (some e) → ∃ d, w.hash d = w.hash (j.doc t) ∧ w.parse d = .ok e.ast
  parsed_own : ∀ t r, (s.pc t = .parsed r ∨ s.pc t = .publish r) → r = w.parse (j.doc t)
  res_own : ∀ t r, s.res t = some r → r = w.parse (j.doc t)
  sf_key : ∀ k l, s.sf k = some l → w.hash (j.doc l) = k
  wait_key : ∀ t l, s.pc t = .waiting l → w.hash (j.doc l) = w.hash (j.doc t)
  done_spec : ∀ t o, s.pc t = .done o → o = spec w (j.doc t) (j.opt t)

theorem inv_init (w : World) (j : Job) (ttl : Int) : CCInv w j (init ttl) := by
  constructor <;> simp [init]

theorem out_parse (w : World) (d : Doc) (o : Opt) : out w o (w.parse d) = spec w d o := rfl

section
variable {w : World} {j : Job} {s s' : St} {t : Tid}

/-- every enabled step of every compilation preserves the invariant (collision-free keys) -/
theorem inv_stepT (hinj : ∀ d d', w.hash d = w.hash d' → d = d') (h : CCInv w j s) (hs : stepT w j s t = some s') : CCInv w j s' := by
  unfold stepT at hs
  simp only at hs
  split at hs
  -- start
  · rename_i hpc
    split at hs
    · -- cached: Load
      simp at hs; subst hs
      refine ⟨h.store_sound, ?_, ?_, h.res_own, h.sf_key, ?_, ?_⟩
      · intro u e hu
        by_cases hut : u = t
        · subst hut
          simp [upd_apply] at hu
          obtain ⟨d, hd, hp⟩ := h.store_sound _ e hu
          exact ⟨d, hd, hp⟩
        · simp [upd_apply, hut] at hu; exact h.loaded_sound u e hu
      · intro u r hu
        by_cases hut : u = t
        · subst hut; simp [upd_apply] at hu
        · simp [upd_apply, hut] at hu; exact h.parsed_own u r hu
      · intro u l hu
        by_cases hut : u = t
        · subst hut; simp [upd_apply] at hu
        · simp [upd_apply, hut] at hu; exact h.wait_key u l hu
      · intro u o hu
        by_cases hut : u = t
        · subst hut; simp [upd_apply] at hu
        · simp [upd_apply, hut] at hu; exact h.done_spec u o hu
    · -- uncached: the stateless compiler itself
      simp at hs; subst hs
      refine ⟨h.store_sound, ?_, ?_, h.res_own, h.sf_key, ?_, ?_⟩
      · intro u e hu
        by_cases hut : u = t
        · subst hut; simp [upd_apply] at hu
        · simp [upd_apply, hut] at hu; exact h.loaded_sound u e hu
      · intro u r hu
        by_cases hut : u = t
        · subst hut; simp [upd_apply] at hu
        · simp [upd_apply, hut] at hu; exact h.parsed_own u r hu
      · intro u l hu
        by_cases hut : u = t
        · subst hut; simp [upd_apply] at hu
        · simp [upd_apply, hut] at hu; exact h.wait_key u l hu
      · intro u o hu
        by_cases hut : u = t
        · subst hut; simp [upd_apply] at hu; exact hu.symm
        · simp [upd_apply, hut] at hu; exact h.done_spec u o hu
  -- loaded (some e): hit or expired
  · rename_i e hpc
    split at hs
    · -- hit
      simp at hs; subst hs
      obtain ⟨d, hd, hp⟩ := h.loaded_sound t e hpc
      have hdt : d = j.doc t := hinj _ _ hd
      refine ⟨h.store_sound, ?_, ?_, h.res_own, h.sf_key, ?_, ?_⟩
      · intro u e' hu
        by_cases hut : u = t
        · subst hut; simp [upd_apply] at hu
        · simp [upd_apply, hut] at hu; exact h.loaded_sound u e' hu
      · intro u r hu
        by_cases hut : u = t
        · subst hut; simp [upd_apply] at hu
        · simp [upd_apply, hut] at hu; exact h.parsed_own u r hu
      · intro u l hu
        by_cases hut : u = t
        · subst hut; simp [upd_apply] at hu
        · simp [upd_apply, hut] at hu; exact h.wait_key u l hu
      · intro u o hu
        by_cases hut : u = t
        · subst hut; simp [upd_apply] at hu
          subst hu; subst hdt
          simp [spec, hp, Except.map]
        · simp [upd_apply, hut] at hu; exact h.done_spec u o hu
    · simp at hs; subst hs
      refine ⟨h.store_sound, ?_, ?_, h.res_own, h.sf_key, ?_, ?_⟩
      · intro u e' hu
        by_cases hut : u = t
        · subst hut; simp [upd_apply] at hu
        · simp [upd_apply, hut] at hu; exact h.loaded_sound u e' hu
      · intro u r hu
        by_cases hut : u = t
        · subst hut; simp [upd_apply] at hu
        · simp [upd_apply, hut] at hu; exact h.parsed_own u r hu
      · intro u l hu
        by_cases hut : u = t
        · subst hut; simp [upd_apply] at hu
        · simp [upd_apply, hut] at hu; exact h.wait_key u l hu
      · intro u o hu
        by_cases hut : u = t
        · subst hut; simp [upd_apply] at hu
        · simp [upd_apply, hut] at hu; exact h.done_spec u o hu
  -- loaded none
  · rename_i hpc
    simp at hs; subst hs
    refine ⟨h.store_sound, ?_, ?_, h.res_own, h.sf_key, ?_, ?_⟩
    · intro u e' hu
      by_cases hut : u = t
      · subst hut; simp [upd_apply] at hu
      · simp [upd_apply, hut] at hu; exact h.loaded_sound u e' hu
    · intro u r hu
      by_cases hut : u = t
      · subst hut; simp [upd_apply] at hu
      · simp [upd_apply, hut] at hu; exact h.parsed_own u r hu
    · intro u l hu
      by_cases hut : u = t
      · subst hut; simp [upd_apply] at hu
      · simp [upd_apply, hut] at hu; exact h.wait_key u l hu
    · intro u o hu
      by_cases hut : u = t
      · subst hut; simp [upd_apply] at hu
      · simp [upd_apply, hut] at hu; exact h.done_spec u o hu
  -- expired: Delete
  · rename_i hpc
    simp at hs; subst hs
    refine ⟨?_, ?_, ?_, h.res_own, h.sf_key, ?_, ?_⟩
    · intro k e hk
      by_cases hkk : k = w.hash (j.doc t)
      · subst hkk; simp [upd_apply] at hk
      · simp [upd_apply, hkk] at hk; exact h.store_sound k e hk
    · intro u e' hu
      by_cases hut : u = t
      · subst hut; simp [upd_apply] at hu
      · simp [upd_apply, hut] at hu; exact h.loaded_sound u e' hu
    · intro u r hu
      by_cases hut : u = t
      · subst hut; simp [upd_apply] at hu
      · simp [upd_apply, hut] at hu; exact h.parsed_own u r hu
    · intro u l hu
      by_cases hut : u = t
      · subst hut; simp [upd_apply] at hu
      · simp [upd_apply, hut] at hu; exact h.wait_key u l hu
    · intro u o hu
      by_cases hut : u = t
      · subst hut; simp [upd_apply] at hu
      · simp [upd_apply, hut] at hu; exact h.done_spec u o hu
  -- join
  · rename_i hpc
    split at hs
    · -- a leader is registered: wait for it
      rename_i l hl
      simp at hs; subst hs
      refine ⟨h.store_sound, ?_, ?_, h.res_own, h.sf_key, ?_, ?_⟩
      · intro u e' hu
        by_cases hut : u = t
        · subst hut; simp [upd_apply] at hu
        · simp [upd_apply, hut] at hu; exact h.loaded_sound u e' hu
      · intro u r hu
        by_cases hut : u = t
        · subst hut; simp [upd_apply] at hu
        · simp [upd_apply, hut] at hu; exact h.parsed_own u r hu
      · intro u l' hu
        by_cases hut : u = t
        · subst hut; simp [upd_apply] at hu; subst hu; exact h.sf_key _ _ hl
        · simp [upd_apply, hut] at hu; exact h.wait_key u l' hu
      · intro u o hu
        by_cases hut : u = t
        · subst hut; simp [upd_apply] at hu
        · simp [upd_apply, hut] at hu; exact h.done_spec u o hu
    · -- become the leader
      rename_i hl
      simp at hs; subst hs
      refine ⟨h.store_sound, ?_, ?_, h.res_own, ?_, ?_, ?_⟩
      · intro u e' hu
        by_cases hut : u = t
        · subst hut; simp [upd_apply] at hu
        · simp [upd_apply, hut] at hu; exact h.loaded_sound u e' hu
      · intro u r hu
        by_cases hut : u = t
        · subst hut; simp [upd_apply] at hu
        · simp [upd_apply, hut] at hu; exact h.parsed_own u r hu
      · intro k l hk
        by_cases hkk : k = w.hash (j.doc t)
        · subst hkk; simp [upd_apply] at hk; subst hk; rfl
        · simp [upd_apply, hkk] at hk; exact h.sf_key k l hk
      · intro u l' hu
        by_cases hut : u = t
        · subst hut; simp [upd_apply] at hu
        · simp [upd_apply, hut] at hu; exact h.wait_key u l' hu
      · intro u o hu
        by_cases hut : u = t
        · subst hut; simp [upd_apply] at hu
        · simp [upd_apply, hut] at hu; exact h.done_spec u o hu
  -- leader: parse
  · rename_i hpc
    simp at hs; subst hs
    refine ⟨h.store_sound, ?_, ?_, h.res_own, h.sf_key, ?_, ?_⟩
    · intro u e' hu
      by_cases hut : u = t
      · subst hut; simp [upd_apply] at hu
      · simp [upd_apply, hut] at hu; exact h.loaded_sound u e' hu
    · intro u r hu
      by_cases hut : u = t
      · subst hut; simp [upd_apply] at hu; exact hu.symm
      · simp [upd_apply, hut] at hu; exact h.parsed_own u r hu
    · intro u l hu
      by_cases hut : u = t
      · subst hut; simp [upd_apply] at hu
      · simp [upd_apply, hut] at hu; exact h.wait_key u l hu
    · intro u o hu
      by_cases hut : u = t
      · subst hut; simp [upd_apply] at hu
      · simp [upd_apply, hut] at hu; exact h.done_spec u o hu
  -- parsed ok: Store
  · rename_i a hpc
    simp at hs; subst hs
    have hown := h.parsed_own t (.ok a) (Or.inl hpc)
    refine ⟨?_, ?_, ?_, h.res_own, h.sf_key, ?_, ?_⟩
    · intro k e hk
      by_cases hkk : k = w.hash (j.doc t)
      · subst hkk; simp [upd_apply] at hk; subst hk
        exact ⟨j.doc t, rfl, hown.symm⟩
      · simp [upd_apply, hkk] at hk; exact h.store_sound k e hk
    · intro u e' hu
      by_cases hut : u = t
      · subst hut; simp [upd_apply] at hu
      · simp [upd_apply, hut] at hu; exact h.loaded_sound u e' hu
    · intro u r hu
      by_cases hut : u = t
      · subst hut; simp [upd_apply] at hu; subst hu; exact hown
      · simp [upd_apply, hut] at hu; exact h.parsed_own u r hu
    · intro u l hu
      by_cases hut : u = t
      · subst hut; simp [upd_apply] at hu
      · simp [upd_apply, hut] at hu; exact h.wait_key u l hu
    · intro u o hu
      by_cases hut : u = t
      · subst hut; simp [upd_apply] at hu
      · simp [upd_apply, hut] at hu; exact h.done_spec u o hu
  -- parsed error: nothing is stored
  · rename_i e hpc
    simp at hs; subst hs
    have hown := h.parsed_own t (.error e) (Or.inl hpc)
    refine ⟨h.store_sound, ?_, ?_, h.res_own, h.sf_key, ?_, ?_⟩
    · intro u e' hu
      by_cases hut : u = t
      · subst hut; simp [upd_apply] at hu
      · simp [upd_apply, hut] at hu; exact h.loaded_sound u e' hu
    · intro u r hu
      by_cases hut : u = t
      · subst hut; simp [upd_apply] at hu; subst hu; exact hown
      · simp [upd_apply, hut] at hu; exact h.parsed_own u r hu
    · intro u l hu
      by_cases hut : u = t
      · subst hut; simp [upd_apply] at hu
      · simp [upd_apply, hut] at hu; exact h.wait_key u l hu
    · intro u o hu
      by_cases hut : u = t
      · subst hut; simp [upd_apply] at hu
      · simp [upd_apply, hut] at hu; exact h.done_spec u o hu
  -- publish: hand over and retire
  · rename_i r hpc
    simp at hs; subst hs
    have hown := h.parsed_own t r (Or.inr hpc)
    refine ⟨h.store_sound, ?_, ?_, ?_, ?_, ?_, ?_⟩
    · intro u e' hu
      by_cases hut : u = t
      · subst hut; simp [upd_apply] at hu
      · simp [upd_apply, hut] at hu; exact h.loaded_sound u e' hu
    · intro u r' hu
      by_cases hut : u = t
      · subst hut; simp [upd_apply] at hu
      · simp [upd_apply, hut] at hu; exact h.parsed_own u r' hu
    · intro u r' hu
      by_cases hut : u = t
      · subst hut; simp [upd_apply] at hu; subst hu; exact hown
      · simp [upd_apply, hut] at hu; exact h.res_own u r' hu
    · intro k l hk
      by_cases hkk : k = w.hash (j.doc t)
      · subst hkk; simp [upd_apply] at hk
      · simp [upd_apply, hkk] at hk; exact h.sf_key k l hk
    · intro u l hu
      by_cases hut : u = t
      · subst hut; simp [upd_apply] at hu
      · simp [upd_apply, hut] at hu; exact h.wait_key u l hu
    · intro u o hu
      by_cases hut : u = t
      · subst hut; simp [upd_apply] at hu; subst hu; rw [hown]; rfl
      · simp [upd_apply, hut] at hu; exact h.done_spec u o hu
  -- waiting: read the leader's result
  · rename_i l hpc
    split at hs
    · rename_i r hr
      simp at hs; subst hs
      have hres := h.res_own l r hr
      have hkey := h.wait_key t l hpc
      have hdoc : j.doc l = j.doc t := hinj _ _ hkey
      refine ⟨h.store_sound, ?_, ?_, h.res_own, h.sf_key, ?_, ?_⟩
      · intro u e' hu
        by_cases hut : u = t
        · subst hut; simp [upd_apply] at hu
        · simp [upd_apply, hut] at hu; exact h.loaded_sound u e' hu
      · intro u r' hu
        by_cases hut : u = t
        · subst hut; simp [upd_apply] at hu
        · simp [upd_apply, hut] at hu; exact h.parsed_own u r' hu
      · intro u l' hu
        by_cases hut : u = t
        · subst hut; simp [upd_apply] at hu
        · simp [upd_apply, hut] at hu; exact h.wait_key u l' hu
      · intro u o hu
        by_cases hut : u = t
        · subst hut; simp [upd_apply] at hu; subst hu; rw [hres, hdoc]; rfl
        · simp [upd_apply, hut] at hu; exact h.done_spec u o hu
    · simp at hs
  -- done
  · simp at hs

end

theorem inv_step (w : World) (j : Job) (hinj : ∀ d d', w.hash d = w.hash d' → d = d') (s : St) (e : Ev) (h : CCInv w j s) :
    CCInv w j (step w j s e) := by
  cases e with
  | thread t =>
    simp only [step]
    cases hs : stepT w j s t with
    | none => simpa using h
    | some s' => simpa using inv_stepT hinj h hs
  | evict k =>
    refine ⟨?_, h.loaded_sound, h.parsed_own, h.res_own, h.sf_key, h.wait_key, h.done_spec⟩
    intro k' e hk
    simp only [step] at hk
    by_cases hkk : k' = k
    · subst hkk; simp [upd_apply] at hk
    · simp [upd_apply, hkk] at hk; exact h.store_sound k' e hk
  | advance δ => exact ⟨h.store_sound, h.loaded_sound, h.parsed_own, h.res_own, h.sf_key, h.wait_key, h.done_spec⟩
  | setTTL d => exact ⟨h.store_sound, h.loaded_sound, h.parsed_own, h.res_own, h.sf_key, h.wait_key, h.done_spec⟩

theorem inv_run (w : World) (j : Job) (hinj : ∀ d d', w.hash d = w.hash d' → d = d') :
    ∀ (σ : List Ev) (s : St), CCInv w j s → CCInv w j (run w j s σ) := by
  intro σ
  induction σ with
  | nil => intro s h; exact h
  | cons e r ih => intro s h; exact ih _ (inv_step w j hinj s e h)

/-- **C13 under concurrency**: whatever the schedule — any number of compilations in flight, cached and uncached, with any
    documents and options, time passing, the TTL changing, entries disappearing at any moment — a compilation that has returned
    has returned what the stateless compiler returns -/
theorem conc_transparent (w : World) (j : Job) (hinj : ∀ d d', w.hash d = w.hash d' → d = d') (ttl : Int) (σ : List Ev)
    (t : Tid) (o : Except Err Html) (h : (run w j (init ttl) σ).pc t = .done o) : o = spec w (j.doc t) (j.opt t) :=
  (inv_run w j hinj σ _ (inv_init w j ttl)).done_spec t o h

/-- every stored tree is the parse of a document with that key — at every moment of every schedule -/
theorem conc_store_sound (w : World) (j : Job) (hinj : ∀ d d', w.hash d = w.hash d' → d = d') (ttl : Int) (σ : List Ev)
    (k : CKey) (e : Entry) (h : (run w j (init ttl) σ).store k = some e) : ∃ d, w.hash d = k ∧ w.parse d = .ok e.ast :=
  (inv_run w j hinj σ _ (inv_init w j ttl)).store_sound k e h

/-- a waiter gets the very result of the compilation that did the work, which is a parse of the waiter's own document -/
theorem conc_waiter (w : World) (j : Job) (hinj : ∀ d d', w.hash d = w.hash d' → d = d') (ttl : Int) (σ : List Ev)
    (t l : Tid) (r : Except Err Ast) (hw : (run w j (init ttl) σ).pc t = .waiting l) (hr : (run w j (init ttl) σ).res l = some r) :
    r = w.parse (j.doc t) := by
  have hi := inv_run w j hinj σ _ (inv_init w j ttl)
  rw [hi.res_own l r hr, hinj _ _ (hi.wait_key t l hw)]

end Gomjml.CacheConc

namespace Gomjml.CacheConc
/-- the HTML a finished compilation returned (for stating examples) -/
def PC.doneOk : PC → Option Gomjml.Cache.Html
  | .done (.ok a) => some a
  | _ => none
def PC.tag : PC → String
  | .start => "start" | .loaded (some _) => "loaded-some" | .loaded none => "loaded-none" | .expired => "expired" | .join => "join"
  | .leader => "leader" | .parsed (.ok _) => "parsed-ok" | .parsed (.error _) => "parsed-err" | .publish _ => "publish"
  | .waiting l => s!"waiting:{l}" | .done (.ok a) => s!"done:ok{a}" | .done (.error e) => s!"done:err{e}"
end Gomjml.CacheConc
