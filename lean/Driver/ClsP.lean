import Gomjml.Core.ClassAttr
import Gomjml.Core.ClassMerge
import Gomjml.Core.SmallPure
import Gomjml.Core.WrapDeliver
import Driver.MixP
import Driver.TagP
/-! driver sub-protocol `classattr <css> <n> <part>×n <entry>…` (hex, `-` = empty); entry = `<class>:<prop>=<val>,<prop>=<val>…`
    Answer: `<hex of build> <hex of inlineStyle table (build …)> <all parts tame 0|1> <fields(build) = flatMap fields 0|1>` -/
open Gomjml.ClassAttr Gomjml.InlineCss

namespace Driver.ClsP
open Driver.MixP (unhex hexOrDash)

def entry (s : String) : Option (List UInt8 × List Decl) :=
  match s.splitOn ":" with
  | [c, ds] => some (unhex c, (ds.splitOn ",").filterMap fun d => match d.splitOn "=" with
      | [p, v] => some ⟨unhex p, unhex v⟩
      | _ => none)
  | _ => none

def tameB (s : List UInt8) : Bool := s.all fun b => Gomjml.Lengths.isAsciiSp b || Gomjml.Lengths.plain b

def handle (args : List String) : String :=
  match args with
  | css :: n :: rest =>
    match n.toNat? with
    | none => "bad-request"
    | some k =>
      let parts := (rest.take k).map unhex
      let table : Table := ((rest.drop k).filterMap entry).foldl (fun t e => t.app e.1 e.2) []
      let b := build parts (unhex css)
      let tame := parts.all tameB && tameB (unhex css)
      let ok := Gomjml.Lengths.fields b == (parts ++ [unhex css]).flatMap Gomjml.Lengths.fields
      s!"{hexOrDash b} {hexOrDash (inlineStyle table b)} {if tame then 1 else 0} {if ok then 1 else 0}"
  | _ => "bad-request"

end Driver.ClsP

/-! `classmerge <class>… ? <attr>…`: class = `!` (not defined) or `<k>:<hexattr>=<hexval>,…` (`0:` = defined, empty);
    answer: per queried attribute the hex of what `GetClassAttribute` gives (css-class: the joined parts), `-` = empty -/
namespace Driver.ClsM
open Gomjml.ClassMerge Gomjml.Store
open Driver.TagP (unhexS hexOfString)

def un (h : String) : String := if h == "-" then "" else unhexS h

def lowerAscii (s : String) : String := String.ofList (s.toList.map fun c => if c ≥ 'A' && c ≤ 'Z' then Char.ofNat (c.toNat + 32) else c)

/-- `normalizeAttributeValue` -/
def norm (name value : String) : String :=
  if value == "" then value
  else if ((lowerAscii name).splitOn "color").length > 1 then
    String.fromUTF8! (ByteArray.mk (Gomjml.SmallPure.normalizeColor value.toUTF8.toList).toArray)
  else value

def cls (s : String) : ClassDefs :=
  if s == "!" then none else
  match s.splitOn ":" with
  | [_, kvs] => some ((kvs.splitOn ",").filterMap fun kv => match kv.splitOn "=" with
      | [k, v] => some (un k, un v)
      | _ => none)
  | _ => some []

def sh (s : String) : String := if s == "" then "-" else hexOfString s

def handle (args : List String) : String :=
  let cs := (args.takeWhile (· != "?")).map cls
  let qs := (args.dropWhile (· != "?")).drop 1
  let m := merge norm cs
  " ".intercalate (qs.map fun q =>
    let a := un q
    if a == "css-class" then sh (cssJoined m.2) else sh ((get m.1 a).getD ""))

end Driver.ClsM

/-! `textdeliver <hex content>`: what the XML layer hands the renderer for the content of an mj-text according to the Models
    (the entity pre-pass `Passes.entities`, `Lines.wrapInner`, then the CDATA reader `Lines.dec`): hex of the text, `-` for empty, `none` if the reader rejects -/
namespace Driver.TxD
open Driver.MixP (unhex hexOrDash)

def handle (args : List String) : String :=
  match args with
  | [h] =>
    match Gomjml.Lines.dec (Gomjml.Lines.wrapInner (Gomjml.Passes.entities (unhex h))) with
    | some t => hexOrDash t
    | none => "none"
  | _ => "bad-request"

end Driver.TxD
