import Gomjml.Props.C18
#print axioms Gomjml.Props.C18.C18_tree_sound
#print axioms Gomjml.Props.C18.C18_entities_identity
#print axioms Gomjml.Props.C18.C18_amp_outside_quotes
#print axioms Gomjml.Props.C18.C18_amp_identity
#print axioms Gomjml.Props.C18.C18_cdata_roundtrip
#print axioms Gomjml.Props.C18.C18_strip_whitespace
#print axioms Gomjml.Props.C18.C18_xml_escapes_left_alone
#print axioms Gomjml.Props.C18.C18_prolog_ignored
