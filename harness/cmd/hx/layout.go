package main

import (
	"fmt"
	"sort"
	"strings"
	"sync"

	"github.com/preslavrachev/gomjml/mjml"
)

// ===== layout documents: correspondence with the Lean Layout model and the Spec oracle on real output =================

type oracleOut struct {
	std, mso, vis, skel string
	seen, hidden        []string
	body                string
}

func parseOracle(line string) (oracleOut, error) {
	var o oracleOut
	parts := strings.SplitN(line, " | ", 2)
	if len(parts) != 2 && !strings.HasSuffix(line, " |") {
		if strings.HasSuffix(line, "| ") {
			parts = []string{strings.TrimSuffix(line, " | "), ""}
		} else {
			return o, fmt.Errorf("driver said %q", short(line, 120))
		}
	}
	for _, kv := range strings.Fields(parts[0]) {
		p := strings.SplitN(kv, "=", 2)
		if len(p) != 2 {
			// skeleton verdict may contain spaces: glue onto skel
			o.skel += " " + kv
			continue
		}
		switch p[0] {
		case "std":
			o.std = p[1]
		case "mso":
			o.mso = p[1]
		case "vis":
			o.vis = p[1]
		case "skel":
			o.skel = p[1]
		case "seen":
			if p[1] != "" {
				o.seen = strings.Split(p[1], ",")
			}
		case "hidden":
			if p[1] != "" {
				o.hidden = strings.Split(p[1], ",")
			}
		}
	}
	if len(parts) == 2 {
		o.body = strings.TrimSpace(parts[1])
	}
	return o, nil
}

func askOracle(drv *DriverPool, html string) (oracleOut, error) {
	line, err := drv.Ask("oracle " + hexOf(html))
	if err != nil {
		return oracleOut{}, err
	}
	return parseOracle(line)
}

// layoutVerdict: what the implementation does with a layout document, judged by the Spec.
type layoutVerdict struct {
	clauses map[string]string // property -> failing clause on the REAL output ("" = holds)
	model   map[string]string // property -> clause the Lean Model predicts for this document
	modelWF string
	corr    string // correspondence problem ("" = model skeleton == real skeleton)
	html    string
	err     error
}

func judgeLayout(drv *DriverPool, d *LDoc) layoutVerdict {
	v := layoutVerdict{clauses: map[string]string{}, model: map[string]string{}}
	src, sents := d.MJML()
	var html string
	var err error
	if p := safely(func() { html, err = mjml.Render(src) }); p != nil {
		v.clauses["C06"] = fmt.Sprint("panic:", p)
		return v
	}
	v.html, v.err = html, err
	if err != nil {
		// a structurally valid document must be rendered or rejected with an error: an error is C04-compatible but means no HTML to judge
		v.clauses["C04"] = ""
		return v
	}
	o, oerr := askOracle(drv, html)
	if oerr != nil {
		v.corr = "oracle: " + oerr.Error()
		return v
	}
	ml, merr := drv.Ask("layout " + d.Enc())
	if merr != nil || !strings.Contains(ml, " | ") {
		v.corr = "model: " + short(ml, 80)
		return v
	}
	mp := strings.SplitN(ml, " | ", 2)
	var mstd, mmso, mvis string
	for _, kv := range strings.Fields(mp[0]) {
		p := strings.SplitN(kv, "=", 2)
		switch p[0] {
		case "wf":
			v.modelWF = p[1]
		case "std":
			mstd = p[1]
		case "mso":
			mmso = p[1]
		case "vis":
			mvis = p[1]
		case "fills":
			if p[1] != "ok" {
				v.corr = "model: components do not match the content slots of the layout (" + p[1] + ")"
			}
		case "content":
			// the Model's count of author-content tokens = the sentinels the printer handed out (C04_once_components on this document)
			if p[1] != fmt.Sprint(len(sents)) {
				v.corr = fmt.Sprintf("model: %s author-content tokens, the document has %d content slots", p[1], len(sents))
			}
		}
	}
	if v.corr != "" {
		return v
	}
	if mstd != "ok" {
		v.model["C02"] = mstd
	}
	if mmso != "ok" && !(mmso == "nested-cond" || mmso == "stray-endif" || mmso == "unterminated-cond") {
		v.model["C03"] = mmso
	} else if mmso != "ok" && mstd == "ok" {
		v.model["C03"] = mmso
	}
	if mvis != "ok" {
		v.model["C04"] = mvis
	}
	if strings.TrimSpace(mp[1]) != o.body {
		a, b := strings.Fields(mp[1]), strings.Fields(o.body)
		i := 0
		for i < len(a) && i < len(b) && a[i] == b[i] {
			i++
		}
		ctx := func(x []string) string {
			lo, hi := i-6, i+6
			if lo < 0 {
				lo = 0
			}
			if hi > len(x) {
				hi = len(x)
			}
			return strings.Join(x[lo:hi], " ")
		}
		v.corr = fmt.Sprintf("skeleton differs at token %d: model …%s… implementation …%s…", i, ctx(a), ctx(b))
	}
	// C02
	switch {
	case o.std != "ok":
		v.clauses["C02"] = o.std
	case o.skel != "ok":
		v.clauses["C02"] = "skeleton"
	}
	// C03
	if o.mso != "ok" && o.mso != "nested-cond" && o.mso != "stray-endif" && o.mso != "unterminated-cond" {
		v.clauses["C03"] = o.mso
	} else if o.mso != "ok" && o.std == "ok" {
		v.clauses["C03"] = o.mso
	}
	// C04: every sentinel once, in document order, visible to standard clients
	want := make([]string, len(sents))
	for i := range sents {
		want[i] = fmt.Sprint(i + 1)
	}
	switch {
	case len(o.hidden) > 0:
		v.clauses["C04"] = "content-in-mso"
	case strings.Join(o.seen, ",") != strings.Join(want, ","):
		seenSet := map[string]int{}
		for _, s := range o.seen {
			seenSet[s]++
		}
		cl := "content-order"
		for _, w := range want {
			if seenSet[w] == 0 {
				cl = "content-missing"
			}
			if seenSet[w] > 1 {
				cl = "content-duplicated"
			}
		}
		v.clauses["C04"] = cl
	}
	return v
}

// ---- shrinking: delete blocks / children / leaves, clear flags, while the same clause keeps failing ----

func cloneLDoc(d *LDoc) *LDoc {
	n := &LDoc{}
	for _, b := range d.Blocks {
		n.Blocks = append(n.Blocks, cloneBlock(b))
	}
	return n
}
func cloneSec(s *LSection) *LSection {
	if s == nil {
		return nil
	}
	n := *s
	n.Kids = nil
	for _, k := range s.Kids {
		n.Kids = append(n.Kids, cloneSChild(k))
	}
	return &n
}
func cloneSChild(k LSChild) LSChild {
	n := k
	if k.Col != nil {
		c := *k.Col
		c.Leaves = append([]LLeaf(nil), k.Col.Leaves...)
		n.Col = &c
	}
	n.Group = nil
	for _, g := range k.Group {
		n.Group = append(n.Group, cloneSChild(g))
	}
	return n
}
func cloneBlock(b LBlock) LBlock {
	n := b
	n.Sec = cloneSec(b.Sec)
	n.WKids = nil
	for _, w := range b.WKids {
		n.WKids = append(n.WKids, LWChild{Sec: cloneSec(w.Sec), Blank: w.Blank})
	}
	n.Hero = append([]LLeaf(nil), b.Hero...)
	return n
}

// variants returns every document one simplification step away.
func variants(d *LDoc) []*LDoc {
	var out []*LDoc
	add := func(f func(n *LDoc)) {
		n := cloneLDoc(d)
		f(n)
		out = append(out, n)
	}
	secVariants := func(get func(n *LDoc) *LSection) {
		s := get(d)
		if s == nil {
			return
		}
		for i := range s.Kids {
			i := i
			add(func(n *LDoc) { t := get(n); t.Kids = append(t.Kids[:i:i], t.Kids[i+1:]...) })
			k := s.Kids[i]
			if k.K == "col" {
				for j := range k.Col.Leaves {
					j := j
					add(func(n *LDoc) {
						c := get(n).Kids[i].Col
						c.Leaves = append(c.Leaves[:j:j], c.Leaves[j+1:]...)
					})
					if k.Col.Leaves[j].Align != "" {
						add(func(n *LDoc) { get(n).Kids[i].Col.Leaves[j].Align = "" })
					}
					for _, cv := range compVariants(k.Col.Leaves[j].Comp) {
						cv := cv
						add(func(n *LDoc) { get(n).Kids[i].Col.Leaves[j].Comp = cv })
					}
				}
				if k.Col.Gutter {
					add(func(n *LDoc) { get(n).Kids[i].Col.Gutter = false })
				}
				if k.Col.Css {
					add(func(n *LDoc) { get(n).Kids[i].Col.Css = false })
				}
			}
			if k.K == "group" {
				for j := range k.Group {
					j := j
					add(func(n *LDoc) {
						g := &get(n).Kids[i]
						g.Group = append(g.Group[:j:j], g.Group[j+1:]...)
					})
				}
				if len(k.Group) > 0 && k.Group[0].K == "col" {
					add(func(n *LDoc) { get(n).Kids[i] = cloneSChild(k.Group[0]) })
				}
			}
			if k.K == "raw" && !k.Blank {
				add(func(n *LDoc) { get(n).Kids[i].Blank = true })
			}
		}
		for _, fl := range []string{"fw", "bg", "bgc", "css", "txt"} {
			fl := fl
			cur := map[string]bool{"fw": s.Fw, "bg": s.Bg, "bgc": s.Bgc, "css": s.Css, "txt": s.Txt}[fl]
			if cur {
				add(func(n *LDoc) {
					t := get(n)
					switch fl {
					case "fw":
						t.Fw = false
					case "bg":
						t.Bg = false
					case "bgc":
						t.Bgc = false
					case "css":
						t.Css = false
					case "txt":
						t.Txt = false
					}
				})
			}
		}
	}
	for bi := range d.Blocks {
		bi := bi
		add(func(n *LDoc) { n.Blocks = append(n.Blocks[:bi:bi], n.Blocks[bi+1:]...) })
		b := d.Blocks[bi]
		switch b.K {
		case "section":
			secVariants(func(n *LDoc) *LSection { return n.Blocks[bi].Sec })
		case "wrapper":
			for wi := range b.WKids {
				wi := wi
				add(func(n *LDoc) {
					w := &n.Blocks[bi]
					w.WKids = append(w.WKids[:wi:wi], w.WKids[wi+1:]...)
				})
				if b.WKids[wi].Sec != nil {
					secVariants(func(n *LDoc) *LSection { return n.Blocks[bi].WKids[wi].Sec })
					// lift the section out of the wrapper
					add(func(n *LDoc) { n.Blocks[bi] = LBlock{K: "section", Sec: cloneSec(b.WKids[wi].Sec)} })
				} else if !b.WKids[wi].Blank {
					add(func(n *LDoc) { n.Blocks[bi].WKids[wi].Blank = true })
				}
			}
			if b.WFw {
				add(func(n *LDoc) { n.Blocks[bi].WFw = false })
			}
			if b.WPad != 0 {
				add(func(n *LDoc) { n.Blocks[bi].WPad = 0 })
			}
			if b.WBgc {
				add(func(n *LDoc) { n.Blocks[bi].WBgc = false })
			}
		case "hero":
			for hi := range b.Hero {
				hi := hi
				add(func(n *LDoc) {
					h := &n.Blocks[bi]
					h.Hero = append(h.Hero[:hi:hi], h.Hero[hi+1:]...)
				})
				for _, cv := range compVariants(b.Hero[hi].Comp) {
					cv := cv
					add(func(n *LDoc) { n.Blocks[bi].Hero[hi].Comp = cv })
				}
			}
		case "raw":
			if !b.Blank {
				add(func(n *LDoc) { n.Blocks[bi].Blank = true })
			}
		}
	}
	return out
}

// compVariants: one simplification step on a content component (nil = replace it by a plain mj-text): drop a child, clear a flag
func compVariants(c *LComp) []*LComp {
	if c == nil {
		return nil
	}
	out := []*LComp{nil}
	cp := func() *LComp {
		n := *c
		n.SocKids = append([]LSocKid(nil), c.SocKids...)
		n.NavKids = append([]LNavKid(nil), c.NavKids...)
		n.AccKids = nil
		for _, k := range c.AccKids {
			k.Parts = append([]LAccPart(nil), k.Parts...)
			n.AccKids = append(n.AccKids, k)
		}
		n.Imgs = append([]bool(nil), c.Imgs...)
		return &n
	}
	for i := range c.SocKids {
		n := cp()
		n.SocKids = append(n.SocKids[:i:i], n.SocKids[i+1:]...)
		out = append(out, n)
		if c.SocKids[i].Href || c.SocKids[i].Text {
			m := cp()
			m.SocKids[i].Href, m.SocKids[i].Text = false, false
			out = append(out, m)
		}
	}
	for i := range c.NavKids {
		n := cp()
		n.NavKids = append(n.NavKids[:i:i], n.NavKids[i+1:]...)
		out = append(out, n)
	}
	for i := range c.AccKids {
		n := cp()
		n.AccKids = append(n.AccKids[:i:i], n.AccKids[i+1:]...)
		out = append(out, n)
		for j := range c.AccKids[i].Parts {
			m := cp()
			m.AccKids[i].Parts = append(m.AccKids[i].Parts[:j:j], m.AccKids[i].Parts[j+1:]...)
			out = append(out, m)
		}
	}
	for i := range c.Imgs {
		if len(c.Imgs) > 1 {
			n := cp()
			n.Imgs = append(n.Imgs[:i:i], n.Imgs[i+1:]...)
			out = append(out, n)
		}
	}
	if c.Href || c.Vert || c.Hamb || c.Thumbs || c.Rows > 0 {
		n := cp()
		n.Href, n.Vert, n.Hamb, n.Thumbs, n.Rows = false, false, false, false, 0
		out = append(out, n)
	}
	return out
}

// docSize orders documents for shrinking: nodes weigh 10, every set flag / non-blank raw / alignment weighs 1.
func docSize(d *LDoc) int {
	n := 0
	b2 := func(b bool) int {
		if b {
			return 1
		}
		return 0
	}
	leaf := func(l LLeaf) int {
		n := 10 + b2(l.Align != "") + b2(l.Raw && !l.Blank)
		if c := l.Comp; c != nil {
			n += 5 + b2(c.Href) + b2(c.Content) + c.Rows + b2(c.Vert) + b2(c.Hamb) + b2(c.Thumbs) + 3*(len(c.SocKids)+len(c.NavKids)+len(c.AccKids)+len(c.Imgs))
			for _, e := range c.SocKids {
				n += b2(e.Href) + b2(e.Text) + b2(e.Raw && !e.Blank)
			}
			for _, e := range c.AccKids {
				n += 3*len(e.Parts) + b2(e.IconLeft) + b2(e.Raw && !e.Blank)
				for _, p := range e.Parts {
					n += b2(p.Content)
				}
			}
			for _, h := range c.Imgs {
				n += b2(h)
			}
			for _, h := range c.NavKids {
				n += b2(h.Content) + b2(h.Raw && !h.Blank)
			}
		}
		return n
	}
	var sc func(k LSChild) int
	sc = func(k LSChild) int {
		m := 10
		switch k.K {
		case "col":
			m += b2(k.Col.Gutter) + b2(k.Col.Css)
			for _, l := range k.Col.Leaves {
				m += leaf(l)
			}
		case "group":
			for _, g := range k.Group {
				m += sc(g)
			}
		case "raw":
			m += b2(!k.Blank)
		}
		return m
	}
	sec := func(s *LSection) int {
		m := 10 + b2(s.Fw) + b2(s.Bg) + b2(s.Bgc) + b2(s.Css) + b2(s.Txt)
		for _, k := range s.Kids {
			m += sc(k)
		}
		return m
	}
	for _, b := range d.Blocks {
		n += 10
		switch b.K {
		case "section":
			n += sec(b.Sec)
		case "wrapper":
			n += b2(b.WFw) + b2(b.WBgc)
			for _, w := range b.WKids {
				if w.Sec != nil {
					n += sec(w.Sec)
				} else {
					n += 10 + b2(!w.Blank)
				}
			}
		case "hero":
			for _, l := range b.Hero {
				n += leaf(l)
			}
		case "raw":
			n += b2(!b.Blank)
		}
	}
	return n
}

var judgeMemo sync.Map // shape encoding -> map[property]clause

func clausesOf(drv *DriverPool, d *LDoc) [2]map[string]string {
	k := d.Enc()
	if v, ok := judgeMemo.Load(k); ok {
		return v.([2]map[string]string)
	}
	j := judgeLayout(drv, d)
	c := [2]map[string]string{j.clauses, j.model}
	judgeMemo.Store(k, c)
	return c
}

// shrinkLayout reduces d while the implementation keeps failing `clause` AND the Model keeps predicting `mclause`.
func shrinkLayout(drv *DriverPool, d *LDoc, prop, clause, mclause string) *LDoc {
	cur := d
	for iter := 0; iter < 200; iter++ {
		vs := variants(cur)
		sort.SliceStable(vs, func(i, j int) bool { return docSize(vs[i]) < docSize(vs[j]) })
		improved := false
		for _, v := range vs {
			if docSize(v) >= docSize(cur) {
				continue
			}
			if c := clausesOf(drv, v); c[0][prop] == clause && c[1][prop] == mclause {
				cur = v
				improved = true
				break
			}
		}
		if !improved {
			break
		}
	}
	return cur
}

// ---- document spaces ----

func colText() LSChild  { return LSChild{K: "col", Col: &LColumn{Leaves: []LLeaf{{}}}} }
func colRight() LSChild { return LSChild{K: "col", Col: &LColumn{Leaves: []LLeaf{{Align: "right"}}}} }

func blockAlphabet() []LBlock {
	sec := func(f func(s *LSection)) LBlock {
		s := &LSection{Kids: []LSChild{colText()}}
		if f != nil {
			f(s)
		}
		return LBlock{K: "section", Sec: s}
	}
	wr := func(fw, bgc bool, kids ...LWChild) LBlock {
		return LBlock{K: "wrapper", WFw: fw, WBgc: bgc, WKids: kids}
	}
	plain := func() *LSection { return &LSection{Kids: []LSChild{colText()}} }
	return []LBlock{
		sec(nil),
		sec(func(s *LSection) { s.Kids = []LSChild{colText(), colText()} }),
		sec(func(s *LSection) { s.Kids = []LSChild{{K: "group", Group: []LSChild{colText(), colText()}}} }),
		sec(func(s *LSection) { s.Bgc = true }),
		sec(func(s *LSection) { s.Bg = true }),
		sec(func(s *LSection) { s.Fw = true }),
		sec(func(s *LSection) { s.Fw = true; s.Bg = true }),
		sec(func(s *LSection) { s.Css = true }),
		sec(func(s *LSection) { s.Kids = []LSChild{colRight()} }),
		sec(func(s *LSection) { s.Kids = nil }),
		sec(func(s *LSection) { s.Kids = []LSChild{colText(), {K: "raw"}} }),
		wr(false, false, LWChild{Sec: plain()}),
		wr(false, false, LWChild{Sec: plain()}, LWChild{Sec: plain()}),
		wr(true, false, LWChild{Sec: plain()}),
		wr(false, false, LWChild{Sec: &LSection{Bg: true, Kids: []LSChild{colText()}}}),
		wr(false, true, LWChild{Sec: &LSection{Fw: true, Bg: true, Kids: []LSChild{colText()}}}),
		wr(false, false, LWChild{Sec: plain()}, LWChild{}),
		wr(false, false),
		{K: "hero", Hero: []LLeaf{{}}},
		{K: "raw"},
	}
}

func wrapperChildAlphabet() []LWChild {
	s := func(fw, bg, bgc bool) LWChild {
		return LWChild{Sec: &LSection{Fw: fw, Bg: bg, Bgc: bgc, Kids: []LSChild{colText()}}}
	}
	return []LWChild{s(false, false, false), s(false, false, true), s(true, false, false), s(true, false, true), s(false, true, false), s(true, true, false), {}, {Blank: true}}
}

func layoutSpace(tier string, seed int64) []*LDoc {
	var docs []*LDoc
	al := blockAlphabet()
	for i := range al {
		docs = append(docs, &LDoc{Blocks: []LBlock{cloneBlock(al[i])}})
		for j := range al {
			docs = append(docs, &LDoc{Blocks: []LBlock{cloneBlock(al[i]), cloneBlock(al[j])}})
			for k := range al {
				docs = append(docs, &LDoc{Blocks: []LBlock{cloneBlock(al[i]), cloneBlock(al[j]), cloneBlock(al[k])}})
			}
		}
	}
	wa := wrapperChildAlphabet()
	for cfg := 0; cfg < 4; cfg++ {
		fw, bgc := cfg&1 == 1, cfg&2 == 2
		mk := func(idx ...int) *LDoc {
			b := LBlock{K: "wrapper", WFw: fw, WBgc: bgc}
			for _, i := range idx {
				b.WKids = append(b.WKids, LWChild{Sec: cloneSec(wa[i].Sec), Blank: wa[i].Blank})
			}
			return &LDoc{Blocks: []LBlock{b}}
		}
		docs = append(docs, mk())
		// wrappers whose padding (and border) leave no room at all for their children, with one, two and three rows: the Outlook
		// structure must balance whatever widths come out
		for _, wp := range []int{1, 2, 3} {
			for _, idx := range [][]int{{0}, {0, 0}, {0, 1}, {1, 0, 0}} {
				ok := true
				for _, i := range idx {
					ok = ok && i < len(wa)
				}
				if ok {
					d := mk(idx...)
					d.Blocks[0].WPad = wp
					docs = append(docs, d)
				}
			}
		}
		for i := range wa {
			docs = append(docs, mk(i))
			for j := range wa {
				docs = append(docs, mk(i, j))
				for k := range wa {
					docs = append(docs, mk(i, j, k))
				}
			}
		}
	}
	docs = append(docs, componentSpace()...)
	n := 3000
	if tier == "thorough" {
		n = 150000
	}
	for i := 0; i < n; i++ {
		docs = append(docs, genLDoc(NewRng(seed, fmt.Sprintf("layout/%d", i))))
	}
	return docs
}

// componentAlphabet: every content component with its skeleton-relevant parameters, systematically: all flag combinations,
// child lists of length 0, 1, 2 (and one of 3) over the distinguishable child kinds
func componentAlphabet() []*LComp {
	var cs []*LComp
	bools := []bool{false, true}
	for _, c := range bools {
		cs = append(cs, &LComp{Kind: "text", Content: c})
		for _, h := range bools {
			cs = append(cs, &LComp{Kind: "button", Href: h, Content: c})
		}
		cs = append(cs, &LComp{Kind: "image", Href: c}, &LComp{Kind: "table", Content: c})
	}
	cs = append(cs, &LComp{Kind: "divider"}, &LComp{Kind: "spacer"}, &LComp{Kind: "table", Rows: 1}, &LComp{Kind: "table", Rows: 2}, &LComp{Kind: "table", Rows: 3})
	el := func(h, t bool) LSocKid { return LSocKid{Href: h, Text: t} }
	socOne := []LSocKid{el(false, false), el(false, true), el(true, false), el(true, true), {Raw: true}, {Raw: true, Blank: true}}
	for _, v := range bools {
		cs = append(cs, &LComp{Kind: "social", Vert: v})
		for _, e1 := range socOne {
			cs = append(cs, &LComp{Kind: "social", Vert: v, SocKids: []LSocKid{e1}})
			for _, e2 := range socOne {
				cs = append(cs, &LComp{Kind: "social", Vert: v, SocKids: []LSocKid{e1, e2}})
			}
		}
		cs = append(cs, &LComp{Kind: "social", Vert: v, SocKids: []LSocKid{el(true, true), {Raw: true}, el(false, true), {Raw: true}, el(true, false)}},
			&LComp{Kind: "social", Vert: v, SocKids: []LSocKid{{Raw: true}, el(true, true), el(false, false), el(false, true), {Raw: true, Blank: true}}})
	}
	navOne := []LNavKid{{Content: true}, {Content: false}, {Raw: true}, {Raw: true, Blank: true}}
	for _, hb := range bools {
		cs = append(cs, &LComp{Kind: "navbar", Hamb: hb})
		for _, k1 := range navOne {
			cs = append(cs, &LComp{Kind: "navbar", Hamb: hb, NavKids: []LNavKid{k1}})
			for _, k2 := range navOne {
				cs = append(cs, &LComp{Kind: "navbar", Hamb: hb, NavKids: []LNavKid{k1, k2}})
				for _, k3 := range navOne[:3] {
					cs = append(cs, &LComp{Kind: "navbar", Hamb: hb, NavKids: []LNavKid{k1, k2, k3}})
				}
			}
		}
	}
	parts := []LAccPart{{"title", true}, {"title", false}, {"text", true}, {"text", false}, {"raw", true}, {"raw", false}}
	cs = append(cs, &LComp{Kind: "accordion"}, &LComp{Kind: "accordion", AccKids: []LAccKid{{Raw: true}}}, &LComp{Kind: "accordion", AccKids: []LAccKid{{Raw: true, Blank: true}, {}}})
	for _, il := range bools {
		cs = append(cs, &LComp{Kind: "accordion", AccKids: []LAccKid{{IconLeft: il}}})
		for _, p1 := range parts {
			cs = append(cs, &LComp{Kind: "accordion", AccKids: []LAccKid{{IconLeft: il, Parts: []LAccPart{p1}}}})
			for _, p2 := range parts {
				cs = append(cs, &LComp{Kind: "accordion", AccKids: []LAccKid{{IconLeft: il, Parts: []LAccPart{p1, p2}}}})
			}
		}
	}
	cs = append(cs, &LComp{Kind: "accordion", AccKids: []LAccKid{{Parts: []LAccPart{parts[0], parts[2]}}, {Raw: true}, {IconLeft: true, Parts: []LAccPart{parts[2], parts[0], parts[0], parts[4]}}, {}}})
	for _, th := range bools {
		for _, im := range [][]bool{{false}, {true}, {false, false}, {true, false}, {false, true}, {true, true, false}, {false, false, false, true}} {
			cs = append(cs, &LComp{Kind: "carousel", Thumbs: th, Imgs: im})
		}
	}
	return cs
}

// componentSpace: every component of the alphabet in every place a content component may stand: alone in a column, behind and
// in front of a text, in the second column, in a group, in a wrapper, in a hero, in a padded (gutter) column
func componentSpace() []*LDoc {
	var docs []*LDoc
	sec := func(kids ...LSChild) LBlock { return LBlock{K: "section", Sec: &LSection{Kids: kids}} }
	col := func(ls ...LLeaf) LSChild { return LSChild{K: "col", Col: &LColumn{Leaves: ls}} }
	for _, c := range componentAlphabet() {
		l := LLeaf{Comp: c}
		docs = append(docs,
			&LDoc{Blocks: []LBlock{sec(col(l))}},
			&LDoc{Blocks: []LBlock{sec(col(LLeaf{}, l, LLeaf{}))}},
			&LDoc{Blocks: []LBlock{sec(col(LLeaf{}), col(l))}},
			&LDoc{Blocks: []LBlock{sec(LSChild{K: "group", Group: []LSChild{col(l), col(LLeaf{})}})}},
			&LDoc{Blocks: []LBlock{{K: "wrapper", WKids: []LWChild{{Sec: &LSection{Kids: []LSChild{col(l)}}}}}}},
			&LDoc{Blocks: []LBlock{{K: "hero", Hero: []LLeaf{l}}}},
			&LDoc{Blocks: []LBlock{{K: "hero", Hero: []LLeaf{{}, l}}}},
			&LDoc{Blocks: []LBlock{sec(LSChild{K: "col", Col: &LColumn{Gutter: true, Leaves: []LLeaf{l, l}}})}},
		)
	}
	return docs
}

func layoutRule() string {
	return "layout documents (abstract trees over sections / columns / groups / wrappers / heroes / raws with exactly the flags the Lean Layout model reads: full-width, background-url, background-color, css-class, text-only, gutter, right-aligned text, blank raw), every content slot carrying a unique sentinel: EXHAUSTIVE for all body sequences of length ≤3 over a 20-block alphabet (8 420 documents) and all wrappers with ≤3 children over 8 child kinds × 4 configurations (2 340), every content component (text, button, image, divider, spacer, table, social, navbar, accordion, carousel) with all its skeleton-relevant parameter combinations and child lists of length 0–3 in eight places (column, between texts, second column, group, wrapper, hero, padded column), plus seeded random trees with components in the columns and heroes. For each: real mjml.Render; the Lean lexer + Spec checkers (driver `oracle`) judge the real bytes (standard view, Outlook view, visibility and order of sentinels, document skeleton); the Lean Layout model (driver `layout`) must produce the same tag/comment skeleton (correspondence). A failing document is delta-debugged to a minimal shape while the same clause keeps failing; signature = minimal shape + clause. Leaf sweep: every content component (text, button, image, divider, spacer, table, raw; navbar / social / accordion / carousel with 0–3 children and an mj-raw before, between and after them, three attribute sets each) in six contexts (column, second column, group, wrapper, hero, padded column), real output judged by the same Spec checkers. Non-trivial = document with ≥2 blocks or a wrapper with ≥1 child; distinct by shape encoding"
}

func runLayoutProp(prop string) runFn {
	return func(res *Result, tier string, seed int64, replay string) {
		res.Rule = layoutRule()
		drv, err := startDriverPool(12)
		if err != nil {
			res.Disagree(Violation{Sig: "driver-missing", What: err.Error()})
			return
		}
		defer drv.Close()
		if replay != "" {
			in := replayRaw(replay)
			src, _ := in["source"].(string)
			html, rerr := mjml.Render(src)
			if rerr != nil {
				res.Note("replay: render error %v", rerr)
				return
			}
			o, _ := askOracle(drv, html)
			res.Case(src, true)
			res.Note("replay verdicts: std=%s mso=%s vis=%s skel=%s seen=%v hidden=%v", o.std, o.mso, o.vis, o.skel, o.seen, o.hidden)
			if (prop == "C02" && (o.std != "ok" || o.skel != "ok")) || (prop == "C03" && o.mso != "ok") || (prop == "C04" && o.vis != "ok") {
				res.Violate(Violation{Sig: fmt.Sprint(in["signature"]), Kind: "shape", What: "replayed document still fails", Input: in})
			}
			return
		}
		docs := layoutSpace(tier, seed)
		res.Exhaustive = false
		_ = sync.Once{}
		type fail struct {
			d       *LDoc
			clause  string
			mclause string
		}
		var fails, known []fail
		var fmu sync.Mutex
		seenShapes := map[string]bool{}
		parallel(12, len(docs), func(i int) {
			d := docs[i]
			v := judgeLayout(drv, d)
			enc := d.Enc()
			nontrivial := len(d.Blocks) >= 2 || (len(d.Blocks) == 1 && d.Blocks[0].K == "wrapper" && len(d.Blocks[0].WKids) > 0)
			res.Case(enc, nontrivial)
			res.mu.Lock()
			res.Programs++
			res.DisagreementsChecked++
			res.mu.Unlock()
			if i%2500 == 11 {
				src, _ := d.MJML()
				res.Sample(map[string]string{"shape": enc, "source": short(src, 300), "model_verdict": v.modelWF, "real_clause": v.clauses[prop]})
			}
			if v.corr != "" {
				src, _ := d.MJML()
				res.Disagree(Violation{Sig: "layout-skeleton-mismatch", Kind: "shape", What: v.corr, Input: map[string]string{"shape": enc, "source": src}})
			}
			c, m := v.clauses[prop], v.model[prop]
			name := func(x string) string {
				if x == "" {
					return "holds"
				}
				return x
			}
			res.Count("real:" + name(c) + "/model:" + name(m))
			switch {
			case c != "" && c == m:
				// the defect-faithful Model predicts exactly this failure: a recorded finding class
				fmu.Lock()
				known = append(known, fail{d, c, m})
				fmu.Unlock()
				res.Count("predicted-class:" + abstractShape(enc))
			case c != "":
				fmu.Lock()
				fails = append(fails, fail{d, c, m})
				fmu.Unlock()
			case m != "" && v.corr == "" && v.err == nil:
				src, _ := d.MJML()
				res.Disagree(Violation{Sig: "model-predicts-failure-implementation-passes|" + m, Kind: "shape", What: "the Model predicts clause " + m + " for this document, the implementation's output passes", Input: map[string]string{"shape": enc, "source": src}})
			}
			if c := v.clauses["C06"]; c != "" {
				src, _ := d.MJML()
				res.Violate(Violation{Sig: "panic|" + enc, Kind: "shape", What: c, Input: map[string]string{"source": src}})
			}
		})
		// recorded classes: one KNOWN-FINDING per (clause) the Model predicts and the implementation exhibits
		kc := map[string]*fail{}
		kn := map[string]int{}
		for i := range known {
			k := known[i].clause
			kn[k]++
			if kc[k] == nil || docSize(known[i].d) < docSize(kc[k].d) {
				kc[k] = &known[i]
			}
		}
		for cl, f := range kc {
			m := shrinkLayout(drv, f.d, prop, f.clause, f.mclause)
			src, _ := m.MJML()
			res.Violate(Violation{Sig: "model-predicted|" + cl, Kind: "shape", What: fmt.Sprintf("%d documents fail clause %s exactly as the Lean layout model predicts; smallest: %s", kn[cl], cl, m.Enc()),
				Input: map[string]string{"source": src, "shape": m.Enc()}})
		}
		// everything else is new: shrink (smallest first) and report minimal shapes
		sort.SliceStable(fails, func(i, j int) bool { return docSize(fails[i].d) < docSize(fails[j].d) })
		var smu sync.Mutex
		parallel(12, len(fails), func(i int) {
			f := fails[i]
			m := shrinkLayout(drv, f.d, prop, f.clause, f.mclause)
			sig := m.Enc() + "|" + f.clause + "|model:" + f.mclause
			smu.Lock()
			dup := seenShapes[sig]
			seenShapes[sig] = true
			smu.Unlock()
			if dup {
				return
			}
			src, _ := m.MJML()
			res.Violate(Violation{Sig: strings.ReplaceAll(sig, " ", "_"), Kind: "shape", What: fmt.Sprintf("%s fails clause %s on minimal shape %s (the Model predicts %q)", prop, f.clause, m.Enc(), f.mclause),
				Input: map[string]string{"source": src, "shape": m.Enc(), "signature": strings.ReplaceAll(sig, " ", "_"), "shrunk_from": f.d.Enc()}})
		})
		res.Note("documents failing as the Model predicts: %d; failing otherwise: %d (distinct minimal shapes %d)", len(known), len(fails), len(seenShapes))
		// the leaves the Layout model treats as opaque well-formed fragments: that hypothesis, on the real bytes
		leafSweep(res, drv, prop)
	}
}

// abstractShape keeps the block-level tokens of a shape encoding (wrappers, sections with their flags, raws, heroes)
func abstractShape(enc string) string {
	var out []string
	for _, f := range strings.Fields(enc) {
		if strings.HasPrefix(f, "W") || strings.HasPrefix(f, "S") || strings.HasPrefix(f, "r") || strings.HasPrefix(f, "H") || f == ";" {
			out = append(out, f)
		}
	}
	return strings.Join(out, " ")
}

func init() {
	register("C02", runLayoutProp("C02"))
	register("C03", runLayoutProp("C03"))
}
