import Gomjml.Core.MapIter
import Gomjml.Gen.MapRanges
import Gomjml.Gen.Census
import Gomjml.Gen.Misc
import Gomjml.Core.SmallPure
/-! # C05 — compilation is deterministic (property theorems only)

Go's `range` over a map is modelled as a fold over an arbitrary permutation of the entries.  Every map range of the
non-test code is listed in the regenerated table `Gen.MapRanges.mapRanges` with the syntactic pattern of its body; for each
pattern accepted below there is a permutation-invariance theorem. -/
namespace Gomjml.Props.C05
open Gomjml.MapIter

/-- patterns whose result is independent of the iteration order, with the lemma that says so -/
def invariantPatterns : List String :=
  ["keyed-insert",                    -- keyed_insert_perm
   "collect-sorted",                  -- collect_sorted_perm
   "const-key-append+keyed-insert",   -- const_key_append_perm + keyed_insert_perm
   "const-key-append",
   "empty"]

/-- sites of pattern `select` whose body has been modelled and proved order independent (`pick_perm`) -/
def selectSites : List (String × String) := [("mjml/fonts.GetGoogleFontURL", "select")]

/-- **every map range in the code base has an order-independent pattern** (complete regenerated table) -/
theorem C05_map_range_sites :
    ∀ s ∈ Gomjml.Gen.MapRanges.mapRanges, s.2.2.2 ∈ invariantPatterns ∨ (s.1, s.2.2.2) ∈ selectSites := by decide

theorem C05_keyed_insert {V W} (g : Nat → V → W) (l l' : List (Nat × V)) (h : l.Perm l')
    (nodup : (l.map Prod.fst).Nodup) (m0 : Nat → Option W) :
    l.foldl (fun m e => upd m e.1 (g e.1 e.2)) m0 = l'.foldl (fun m e => upd m e.1 (g e.1 e.2)) m0 :=
  keyed_insert_perm g l l' h nodup m0
theorem C05_collect_sorted (l l' : List Nat) (h : l.Perm l') :
    l.mergeSort (fun a b => decide (a ≤ b)) = l'.mergeSort (fun a b => decide (a ≤ b)) := collect_sorted_perm l l' h
theorem C05_const_key_append {V} (c : Nat) (l l' : List (Nat × V)) (h : l.Perm l') (nodup : (l.map Prod.fst).Nodup) :
    l.filter (fun e => e.1 == c) = l'.filter (fun e => e.1 == c) := const_key_append_perm c l l' h nodup
/-- the Google-font lookup (after the fix) returns the same URL for every iteration order of the mapping -/
theorem C05_font_lookup (l l' : List FEntry) (h : l.Perm l') (nodup : (l.map FEntry.name).Nodup) : pick l = pick l' :=
  pick_perm l l' h nodup

/-- non-vacuity: a three-entry mapping and one of its permutations -/
example : [(⟨1, some 0, 6, 100⟩ : FEntry), ⟨2, some 8, 9, 200⟩, ⟨3, none, 4, 300⟩].Perm
          [⟨3, none, 4, 300⟩, ⟨2, some 8, 9, 200⟩, ⟨1, some 0, 6, 100⟩] ∧
          ([(⟨1, some 0, 6, 100⟩ : FEntry), ⟨2, some 8, 9, 200⟩, ⟨3, none, 4, 300⟩].map FEntry.name).Nodup := by
  constructor
  · exact (List.Perm.swap _ _ _).trans ((List.Perm.cons _ (List.Perm.swap _ _ _)).trans (List.Perm.swap _ _ _))
  · decide

/-- the other sources of nondeterminism: every call into math/rand, crypto/rand, maphash, time and the environment made by
    non-test code is one of these (a subset check: removing a call does not break it) -/
def allowedCalls : List (String × String) :=
  [("hash/maphash.MakeSeed", "mjml.hashTemplate"), ("hash/maphash.SetSeed", "mjml.hashTemplate"),
   ("hash/maphash.Sum64", "mjml.hashTemplate"), ("hash/maphash.WriteString", "mjml.hashTemplate"),
   ("math/rand.Intn", "mjml/components.genRandomHexString"),
   ("os.Exit", "cmd/gomjml/command.Execute"), ("os.Exit", "cmd/gomjml/command.NewCompileCommand"),
   ("os.Exit", "cmd/gomjml/command.NewTestCommand"),
   ("time.After", "mjml.startASTCacheCleanup"), ("time.NewTicker", "mjml.startASTCacheCleanup"),
   ("time.Now", "mjml.RenderWithAST"), ("time.Now", "mjml.parseAST"), ("time.Now", "mjml.startASTCacheCleanup"),
   ("time.Since", "mjml.RenderWithAST")]
theorem C05_nondeterminism_census :
    ∀ r ∈ Gomjml.Gen.Census.census, r.1 = "call" → (r.2.1, r.2.2) ∈ allowedCalls := by decide

/-- the random identifier has exactly two (memoising) consumers: the carousel id and the navbar checkbox id -/
theorem C05_random_id_callers :
    ∀ f ∈ Gomjml.Gen.Misc.randomIdCallers,
      f ∈ ["mjml/components.(*MJCarouselComponent).generateCarouselID", "mjml/components.(*MJNavbarComponent).generateCheckboxID"] := by
  decide

/-- **the font imports of a document** (`fonts.ConvertFontFamiliesToURLs`, whose `seen` map is only ever asked for
    membership): for every list of families in order of use and whatever the lookup of one family answers, every address is
    imported once, every family with an address is served, and the addresses stand in the order of first use — a list fixed
    by the document alone; the import block (`fontTags`) is a function of that list. -/
theorem C05_font_imports (lookup : List Gomjml.Amp.B → List Gomjml.Amp.B) (fams : List (List Gomjml.Amp.B)) :
    (Gomjml.SmallPure.convert lookup fams).Nodup ∧
    (∀ u, u ∈ Gomjml.SmallPure.convert lookup fams ↔ u ≠ [] ∧ ∃ f ∈ fams, lookup f = u) ∧
    (Gomjml.SmallPure.convert lookup fams).Sublist (fams.map lookup) :=
  Gomjml.SmallPure.convert_spec lookup fams

/-- … and the list is stable: de-duplicating it again changes nothing (the head merges this list with the declared fonts through
    the same step) -/
theorem C05_font_imports_stable (lookup : List Gomjml.Amp.B → List Gomjml.Amp.B) (fams : List (List Gomjml.Amp.B)) :
    Gomjml.SmallPure.dedupFirst (Gomjml.SmallPure.convert lookup fams) = Gomjml.SmallPure.convert lookup fams := by
  unfold Gomjml.SmallPure.convert
  exact Gomjml.SmallPure.dedupFirst_idem _

/-- non-vacuity: two families with the same address and one without -/
example : Gomjml.SmallPure.convert (fun f => if f = [1] then [] else [7]) [[2], [1], [3]] = [[7]] := by decide

/-- **`styles.NormalizeColor`** is idempotent and keeps the author's digits: `#abc` and `#aabbcc` name one colour however
    often a value passes through it. -/
theorem C05_normalize_color (v : List Gomjml.Amp.B) :
    Gomjml.SmallPure.normalizeColor (Gomjml.SmallPure.normalizeColor v) = Gomjml.SmallPure.normalizeColor v ∧
    ∀ x ∈ Gomjml.SmallPure.normalizeColor v, x ∈ v :=
  ⟨Gomjml.SmallPure.normalizeColor_idem v, Gomjml.SmallPure.normalizeColor_digits v⟩

end Gomjml.Props.C05
