/-! Byte-exact model of `mjml/html/tag.go`: `HTMLTag` is an ordered attribute list (overwrite on the same name), an ordered
    class list and an ordered style list, rendered attributes → classes → styles; attribute values with `"` written as `&quot;`, class and style values unescaped.  Output is modelled as
    the list of `WriteString` calls (their concatenation is the bytes). -/
namespace Gomjml.Tag

structure HTag where
  name : String
  attrs : List (String × String)
  classes : List String
  styles : List (String × String)
deriving Repr, DecidableEq

def new (name : String) : HTag := ⟨name, [], [], []⟩

/-- `AddAttribute`: overwrite in place when the name exists, else append -/
def setAttr : List (String × String) → String → String → List (String × String)
  | [], n, v => [(n, v)]
  | (m, w) :: r, n, v => if m = n then (m, v) :: r else (m, w) :: setAttr r n v

def addAttr (t : HTag) (n v : String) : HTag := { t with attrs := setAttr t.attrs n v }
def maybeAddAttr (t : HTag) (n : String) (v : Option String) : HTag :=
  match v with
  | some s => if s = "" then t else addAttr t n s
  | none => t
def addClass (t : HTag) (c : String) : HTag := { t with classes := t.classes ++ [c] }
def addStyle (t : HTag) (n v : String) : HTag := { t with styles := t.styles ++ [(n, v)] }
def maybeAddStyle (t : HTag) (n v : String) : HTag := if v = "" then t else addStyle t n v

/-- `EscapeAttrValue`: a double quote in the value is written as `&quot;`, everything else as it is -/
def escQuotes (v : String) : String := String.join (v.toList.map (fun c => if c = '"' then "&quot;" else String.singleton c))

def attrWrites (a : String × String) : List String := [" ", a.1, "=\"", escQuotes a.2, "\""]
def styleWrites (s : String × String) : List String := [s.1, ":", s.2, ";"]

/-- `strings.Join(classes, " ")` -/
def joinSp : List String → String
  | [] => ""
  | [c] => c
  | c :: r => c ++ " " ++ joinSp r

def classWrites (cs : List String) : List String := if cs.isEmpty then [] else [" class=\"", joinSp cs, "\""]
def stylesWrites (ss : List (String × String)) : List String :=
  if ss.isEmpty then [] else [" style=\""] ++ ss.flatMap styleWrites ++ ["\""]

def renderAttributes (t : HTag) : List String :=
  t.attrs.flatMap attrWrites ++ classWrites t.classes ++ stylesWrites t.styles

def renderOpen (t : HTag) : List String := ["<", t.name] ++ renderAttributes t ++ [">"]
def renderClose (t : HTag) : List String := ["</", t.name, ">"]
def renderSelfClosing (t : HTag) : List String := ["<", t.name] ++ renderAttributes t ++ [" />"]

def bytes (ws : List String) : String := String.join ws

/-! ### laws -/

theorem setAttr_fresh (l : List (String × String)) (n v : String) (h : ∀ a ∈ l, a.1 ≠ n) : setAttr l n v = l ++ [(n, v)] := by
  induction l with
  | nil => rfl
  | cons a r ih =>
    obtain ⟨m, w⟩ := a
    have hm : m ≠ n := h (m, w) (by simp)
    simp only [setAttr, hm, if_false, List.cons_append]
    rw [ih (fun b hb => h b (by simp [hb]))]

/-- **debug attributes only add**: adding an attribute whose name the tag does not carry yet inserts exactly one
    ` name="value"` group between the existing attributes and the class / style groups — deleting it gives back the
    original open tag, write for write -/
theorem renderOpen_addAttr_fresh (t : HTag) (n v : String) (h : ∀ a ∈ t.attrs, a.1 ≠ n) :
    renderOpen (addAttr t n v) =
      (["<", t.name] ++ t.attrs.flatMap attrWrites) ++ attrWrites (n, v) ++ (classWrites t.classes ++ stylesWrites t.styles ++ [">"]) ∧
    renderOpen t = (["<", t.name] ++ t.attrs.flatMap attrWrites) ++ (classWrites t.classes ++ stylesWrites t.styles ++ [">"]) := by
  constructor
  · simp [renderOpen, renderAttributes, addAttr, setAttr_fresh _ _ _ h, List.flatMap_append]
  · simp [renderOpen, renderAttributes]

/-- overwriting an attribute keeps the position and changes only the value -/
theorem setAttr_length (l : List (String × String)) (n v : String) (h : ∃ a ∈ l, a.1 = n) : (setAttr l n v).length = l.length := by
  induction l with
  | nil => obtain ⟨a, ha, _⟩ := h; simp at ha
  | cons a r ih =>
    obtain ⟨m, w⟩ := a
    simp only [setAttr]
    split
    · rfl
    · rename_i hm
      obtain ⟨b, hb, hbn⟩ := h
      simp only [List.mem_cons] at hb
      rcases hb with rfl | hb
      · exact absurd hbn hm
      · simp [ih ⟨b, hb, hbn⟩]

/-- styles never touch the attribute or class groups (used by C19: inline styles only extend ` style="…"`) -/
theorem renderOpen_addStyle (t : HTag) (n v : String) :
    renderOpen (addStyle t n v) = ["<", t.name] ++ t.attrs.flatMap attrWrites ++ classWrites t.classes ++ stylesWrites (t.styles ++ [(n, v)]) ++ [">"] := by
  simp [renderOpen, renderAttributes, addStyle]

end Gomjml.Tag

namespace Gomjml.Tag

/-! ### `BaseComponent.ApplyInlineStyles`: for every class of the class attribute (in attribute order) that an inline rule
    targets, append that rule's declarations (in declaration order) to the tag's styles -/

abbrev Rules := List (String × List (String × String))     -- class ↦ ordered declarations (RenderOpts.InlineClassStyles)

def declsFor (rules : Rules) (classes : List String) : List (String × String) :=
  classes.flatMap (fun c => (rules.lookup c).getD [])

def applyInline (rules : Rules) (t : HTag) (classes : List String) : HTag :=
  (declsFor rules classes).foldl (fun t d => addStyle t d.1 d.2) t

theorem foldl_addStyle (ds : List (String × String)) (t : HTag) :
    (ds.foldl (fun t d => addStyle t d.1 d.2) t) = { t with styles := t.styles ++ ds } := by
  induction ds generalizing t with
  | nil => simp
  | cons d r ih =>
    simp only [List.foldl_cons]
    rw [ih (addStyle t d.1 d.2)]
    simp [addStyle, List.append_assoc]

/-- **inline styles touch nothing but the style list**, and they add exactly the targeted rules' declarations, in order -/
theorem applyInline_eq (rules : Rules) (t : HTag) (classes : List String) :
    applyInline rules t classes = { t with styles := t.styles ++ declsFor rules classes } := by
  unfold applyInline; exact foldl_addStyle _ t

/-- … hence the rendered open tag differs only inside ` style="…"`: name, attribute group and class group are write-for-write
    the same -/
theorem renderOpen_applyInline (rules : Rules) (t : HTag) (classes : List String) :
    renderOpen (applyInline rules t classes) =
      ["<", t.name] ++ t.attrs.flatMap attrWrites ++ classWrites t.classes ++ stylesWrites (t.styles ++ declsFor rules classes) ++ [">"] := by
  rw [applyInline_eq]; simp [renderOpen, renderAttributes]

/-- without a targeted class nothing changes at all -/
theorem applyInline_none (rules : Rules) (t : HTag) (classes : List String) (h : ∀ c ∈ classes, rules.lookup c = none) :
    applyInline rules t classes = t := by
  rw [applyInline_eq]
  have : declsFor rules classes = [] := by
    unfold declsFor
    rw [List.flatMap_eq_nil_iff]
    intro c hc; simp [h c hc]
  simp [this]

end Gomjml.Tag
