namespace Gomjml.WriterFault
/-! Prototype for C06(a): a program that checks every write fails with *the* injected error and a prefix. -/

/-- Skeleton of a Render method as extracted from Go: only writes, calls, control flow. Conditions are
    resolved by an environment (they never depend on write results in disciplined code). -/
inductive Prog
  | skip
  | write (s : String)                 -- `if _, err := w.WriteString(s); err != nil { return err }`
  | writeUnchecked (s : String)        -- `w.WriteString(s)` result dropped
  | seq (a b : Prog)
  | ite (c : Nat) (t e : Prog)         -- condition #c of the environment
  | swallow (a : Prog)                 -- `if err := a(); err != nil { /* ignored */ }`
deriving Repr

structure W where
  out : List String
  n : Nat            -- writes performed so far
deriving Repr

/-- writer failing at its k-th call (1-based); `none` = never fails -/
def wr (k : Option Nat) (w : W) (s : String) : Except Unit W :=
  if k = some (w.n + 1) then .error () else .ok { out := w.out ++ [s], n := w.n + 1 }

/-- result: final writer state and whether the injected error was *returned* -/
def run (env : Nat → Bool) (k : Option Nat) : Prog → W → W × Bool
  | .skip, w => (w, false)
  | .write s, w => match wr k w s with
      | .ok w' => (w', false)
      | .error _ => ({ w with n := w.n + 1 }, true)
  | .writeUnchecked s, w => match wr k w s with
      | .ok w' => (w', false)
      | .error _ => ({ w with n := w.n + 1 }, false)      -- error dropped, execution continues
  | .seq a b, w =>
      let r := run env k a w
      if r.2 then r else run env k b r.1
  | .ite c t e, w => if env c then run env k t w else run env k e w
  | .swallow a, w => ((run env k a w).1, false)

def Disciplined : Prog → Bool
  | .skip => true
  | .write _ => true
  | .writeUnchecked _ => false
  | .seq a b => Disciplined a && Disciplined b
  | .ite _ t e => Disciplined t && Disciplined e
  | .swallow _ => false


/-- fault-free runs never report failure and only extend the output -/
theorem run_none (env : Nat → Bool) : ∀ (p : Prog) (w : W), Disciplined p = true →
    (run env none p w).2 = false ∧ w.out <+: (run env none p w).1.out := by
  intro p
  induction p with
  | skip => intro w _; simp [run]
  | write s => intro w _; simp [run, wr]
  | writeUnchecked s => intro w hd; simp [Disciplined] at hd
  | swallow a _ => intro w hd; simp [Disciplined] at hd
  | ite c t e iht ihe =>
    intro w hd
    simp only [Disciplined, Bool.and_eq_true] at hd
    simp only [run]
    cases env c
    · simpa using ihe w hd.2
    · simpa using iht w hd.1
  | seq a b iha ihb =>
    intro w hd
    simp only [Disciplined, Bool.and_eq_true] at hd
    have ha := iha w hd.1
    have hb := ihb (run env none a w).1 hd.2
    simp only [run, ha.1, Bool.false_eq_true, if_false]
    exact ⟨hb.1, List.IsPrefix.trans ha.2 hb.2⟩

/-- C06(a): with a writer failing at call `k`, a disciplined program either never reaches call `k`
    and behaves exactly as with a healthy writer, or returns the injected failure having written a
    prefix of the fault-free output. -/
theorem run_fault (env : Nat → Bool) (k : Nat) : ∀ (p : Prog) (w : W), Disciplined p = true →
    ((run env (some k) p w).2 = false ∧ (run env (some k) p w).1 = (run env none p w).1) ∨
    ((run env (some k) p w).2 = true ∧ (run env (some k) p w).1.out <+: (run env none p w).1.out) := by
  intro p
  induction p with
  | skip => intro w _; simp [run]
  | write s =>
    intro w _
    simp only [run, wr]
    by_cases h : some k = some (w.n + 1)
    · simp [h]
    · simp [h]
  | writeUnchecked s => intro w hd; simp [Disciplined] at hd
  | swallow a _ => intro w hd; simp [Disciplined] at hd
  | ite c t e iht ihe =>
    intro w hd
    simp only [Disciplined, Bool.and_eq_true] at hd
    simp only [run]
    cases env c
    · simpa using ihe w hd.2
    · simpa using iht w hd.1
  | seq a b iha ihb =>
    intro w hd
    simp only [Disciplined, Bool.and_eq_true] at hd
    have hn := run_none env a w hd.1
    simp only [run, hn.1, Bool.false_eq_true, if_false]
    rcases iha w hd.1 with ⟨hf, he⟩ | ⟨hf, hpre⟩
    · -- `a` completed: same state, continue with `b`
      simp only [hf, Bool.false_eq_true, if_false, he]
      exact ihb _ hd.2
    · -- `a` failed: nothing more is written
      right
      simp only [hf, if_true, true_and]
      exact List.IsPrefix.trans hpre (run_none env b _ hd.2).2

end Gomjml.WriterFault
