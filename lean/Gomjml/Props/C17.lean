import Gomjml.Core.Validate
import Gomjml.Core.Api
/-! # C17 — validation errors are exact and never suppress the HTML (property theorems only) -/
namespace Gomjml.Props.C17
open Gomjml.Validate

/-- an invalid-attribute error is reported **iff** some element carries an attribute its component does not accept -/
theorem C17_error_iff (N : Names) (allowed) (es : List Elem) :
    reports N allowed es = [] ↔ ∀ e ∈ es, ∀ a ∈ e.attrs, accepted N allowed e.tag a = true := reports_nil_iff N allowed es

/-- … the details are offending (tag, attribute, line) triples of the document **and nothing else** … -/
theorem C17_details_sound (N : Names) (allowed) (es : List Elem) (r : String × String × Nat) (h : r ∈ reports N allowed es) :
    ∃ e ∈ es, r.1 = e.tag ∧ r.2.1 ∈ e.attrs ∧ r.2.2 = e.line ∧ accepted N allowed e.tag r.2.1 = false :=
  reports_sound N allowed es r h

/-- … **each once** per element -/
theorem C17_each_once (N : Names) (allowed) (e : Elem) (hnd : e.attrs.Nodup) (a : String) (ha : a ∈ e.attrs)
    (hbad : accepted N allowed e.tag a = false) : (reportsOf N allowed e).count (e.tag, a, e.line) = 1 :=
  reportsOf_count N allowed e hnd a ha hbad

/-- data-*, aria-*, css-class, mj-class and class are always accepted, whatever the component -/
theorem C17_always_accepted (N : Names) (allowed) (tag a : String) (ha : a ≠ "")
    (h : N.isData a = true ∨ N.isAria a = true ∨ a = "mj-class" ∨ a = "css-class" ∨ a = "class") :
    accepted N allowed tag a = true := always_accepted N allowed tag a ha h

/-- the line lookup returns 1 + the number of newlines in front of the offset, for every content and offset -/
theorem C17_line_lookup (content : List UInt8) (offset : Nat) : lineImpl content offset = lineSpec content offset :=
  line_correct content offset

/-- the HTML returned alongside the error is the HTML the document yields anyway -/
theorem C17_html_unchanged (w w' : Gomjml.Api.World) (s : Gomjml.Api.St) (d : Gomjml.Api.Doc) (hp : w.parse d = .ok ())
    (hsame : w'.parse = w.parse ∧ w'.attrs = w.attrs ∧ w'.html = w.html ∧ w'.reorder = w.reorder ∧ w'.renderErr = w.renderErr)
    (e : Gomjml.Api.Err) (hr : w.renderErr d = none) (hv : w.validation d = some e) (hv' : w'.validation d = none) :
    ∃ html, (Gomjml.Api.step w s (.render d)).2 = .okValidation html e ∧ (Gomjml.Api.step w' s (.render d)).2 = .ok html :=
  Gomjml.Api.validation_keeps_html w w' s d hp hsame e hr hv hv'

/-- non-vacuity: one accepted, one always-accepted and one offending attribute on a real table -/
def N0 : Names := ⟨fun a => a == "data-x", fun _ => false⟩
example : reports N0 Gomjml.Gen.Allowed.allowed [⟨"mj-text", ["color", "data-x", "bogus"], 7⟩] = [("mj-text", "bogus", 7)] := by
  decide +kernel

/-- Regenerated facts: the validator runs in `NewBaseComponent` and nowhere else, the reporter is invoked only by the
    validator; every component with an attribute table is built by the factory (`mj-breakpoint` has a table but no component) -/
theorem C17_sites :
    Gomjml.Gen.Allowed.validationSites =
      [("report", "mjml/components.validateComponentAttributes"), ("validate", "mjml/components.NewBaseComponent")] ∧
    ∀ r ∈ Gomjml.Gen.Allowed.allowed, r.1 ∈ Gomjml.Gen.Allowed.factoryTags ∨ r.1 = "mj-breakpoint" := by
  decide +kernel

end Gomjml.Props.C17
