package main

import (
	"fmt"
	"strings"
	"sync"
	"time"

	"github.com/preslavrachev/gomjml/mjml"
)

// ===== the concurrent cache Model (Lean: Core/CacheConc.lean) against the real parseAST =================================
//
// Goroutines compile through mjml.Render(…, WithCache()); the verif yield points park each of them after Load, before the
// Delete of an expired entry, at every step of singleflightDo, in front of the parser and after Store.  A schedule is chosen
// step by step from what the Lean Model (driver `cc`) says is enabled — thread steps, evictions by "the environment", the
// passing of time — and after every step the goroutine must stand exactly where the Model's thread stands; at the end every
// compilation must have returned the uncached result, and the cache must hold an entry for exactly the Model's documents.

var ccDocs = []string{
	`<mjml><mj-body><mj-section><mj-column><mj-text>CC doc A</mj-text></mj-column></mj-section></mj-body></mjml>`,
	`<mjml><mj-body><mj-section><mj-column><mj-text>CC doc B</mj-text><mj-divider/></mj-column></mj-section></mj-body></mjml>`,
	`<mjml><mj-body><mj-section><mj-column><mj-text>unclosed</mj-column></mj-section></mj-body></mjml>`, // does not parse
}

const ccOkBits = "110"

type ccCtl struct {
	mu     sync.Mutex
	tidOf  map[int]int
	arrive chan sfArrival
	grant  []chan struct{}
	finish chan int
}

func (c *ccCtl) yield(point string) {
	if strings.HasPrefix(point, "cl.") {
		return
	}
	c.mu.Lock()
	tid, ok := c.tidOf[goid()]
	c.mu.Unlock()
	if !ok {
		return
	}
	c.arrive <- sfArrival{tid, point}
	<-c.grant[tid]
}

// one Model step of a thread = these arrivals of its goroutine, in order (all but the last are passed through at once);
// "finish" = the goroutine returns
func ccExpected(label string) []string {
	switch {
	case label == "loaded-some" || label == "loaded-none":
		return []string{"pa.loaded"}
	case label == "expired":
		return []string{"pa.expired"}
	case label == "join":
		return []string{"start"}
	case label == "leader":
		return []string{"locked", "lead"}
	case strings.HasPrefix(label, "waiting:"):
		return []string{"locked", "waiting"}
	case label == "parsed-ok" || label == "parsed-err":
		return []string{"parsing"}
	case label == "publish":
		return []string{"pa.stored|assigned"} // after Store on success; straight into the deferred hand-over on a parse error
	case strings.HasPrefix(label, "done:"):
		return []string{"*finish"}
	}
	return nil
}

func ccReplay(drv *Driver, r *Rng, n int) (trace string, problem string, spec string) {
	mjml.StopASTCacheCleanup()
	mjml.VerifCacheClear()
	c := &ccCtl{tidOf: map[int]int{}, arrive: make(chan sfArrival, 4*n), finish: make(chan int, n)}
	c.grant = make([]chan struct{}, n)
	f := c.yield
	mjml.VerifYield.Store(&f)
	orig := mjml.ParseMJML
	mjml.ParseMJML = func(s string) (*mjml.MJMLNode, error) {
		c.yield("parsing")
		return orig(s)
	}
	defer func() {
		mjml.VerifYield.Store(nil)
		mjml.ParseMJML = orig
		mjml.StopASTCacheCleanup()
		mjml.VerifCacheClear()
	}()
	docOf := make([]int, n)
	var docList []string
	for t := 0; t < n; t++ {
		c.grant[t] = make(chan struct{})
		docOf[t] = []int{0, 0, 1, 2, 0, 1}[r.Intn(6)]
		docList = append(docList, fmt.Sprint(docOf[t]))
	}
	// uncached reference results (the hooks are not registered for this goroutine: no parking)
	want := make([]string, len(ccDocs))
	wantErr := make([]string, len(ccDocs))
	for d, src := range ccDocs {
		h, err := mjml.Render(src)
		want[d] = h
		if err != nil {
			wantErr[d] = err.Error()
		}
	}
	got := make([]string, n)
	gotErr := make([]string, n)
	started := make([]bool, n)
	launch := func(t int) {
		ready := make(chan struct{})
		go func() {
			c.mu.Lock()
			c.tidOf[goid()] = t
			c.mu.Unlock()
			close(ready)
			h, err := mjml.Render(ccDocs[docOf[t]], mjml.WithCache())
			got[t] = h
			if err != nil {
				gotErr[t] = err.Error()
			}
			c.finish <- t
		}()
		<-ready
	}
	abort := func() {
		go func() {
			for {
				select {
				case <-c.arrive:
				case <-c.finish:
				case <-time.After(300 * time.Millisecond):
					return
				}
			}
		}()
		for t := 0; t < n; t++ {
			go func(t int) {
				for i := 0; i < 16; i++ {
					select {
					case c.grant[t] <- struct{}{}:
					case <-time.After(20 * time.Millisecond):
					}
				}
			}(t)
		}
		time.Sleep(350 * time.Millisecond)
	}
	ask := func(evs []string) (labels []string, enabled []int, present map[int]bool, err error) {
		resp, e := drv.Ask("cc " + strings.Join(docList, ",") + " " + strings.Repeat("1", n) + " " + ccOkBits + " 300000000000 " + strings.Join(evs, " "))
		if e != nil {
			return nil, nil, nil, e
		}
		parts := strings.Split(resp, "|")
		if len(parts) != 3 {
			return nil, nil, nil, fmt.Errorf("driver said %q", resp)
		}
		labels = strings.Fields(parts[0])
		for _, x := range strings.Fields(parts[1]) {
			var v int
			fmt.Sscan(x, &v)
			enabled = append(enabled, v)
		}
		present = map[int]bool{}
		for _, x := range strings.Fields(parts[2]) {
			var v int
			fmt.Sscan(x, &v)
			present[v] = true
		}
		return
	}
	await := func(t int, wantPoint string) string {
		select {
		case a := <-c.arrive:
			ok := false
			for _, alt := range strings.Split(wantPoint, "|") {
				ok = ok || a.point == alt
			}
			if a.tid != t || !ok {
				return fmt.Sprintf("granted thread %d, the Model expects it at %s, the implementation has thread %d at %s", t, wantPoint, a.tid, a.point)
			}
		case ft := <-c.finish:
			return fmt.Sprintf("thread %d returned, the Model expects thread %d at %s", ft, t, wantPoint)
		case <-time.After(2 * time.Second):
			return fmt.Sprintf("thread %d granted, expected at %s: no arrival within 2 s (blocked)", t, wantPoint)
		}
		return ""
	}
	var evs []string
	labelOf := make([]string, n) // the Model's current label per thread
	finished := 0
	for steps := 0; steps < 120; steps++ {
		_, enabled, _, err := ask(evs)
		if err != nil {
			abort()
			return trace, "driver: " + err.Error(), ""
		}
		if len(enabled) == 0 {
			break
		}
		// choose: mostly a thread step; sometimes an eviction; time passes only while no goroutine holds a loaded entry (the
		// implementation reads the real clock, the harness can only move the stored expiries)
		ev := ""
		holdsLoaded := false
		for _, l := range labelOf {
			if l == "loaded-some" {
				holdsLoaded = true
			}
		}
		switch x := r.Intn(10); {
		case x == 0:
			ev = fmt.Sprintf("e%d", r.Intn(2))
		case x == 1 && !holdsLoaded:
			ev = r.Pick([]string{"a100000000000", "a400000000000"})
		default:
			ev = fmt.Sprintf("t%d", enabled[r.Intn(len(enabled))])
		}
		evs = append(evs, ev)
		labels, _, _, err := ask(evs)
		if err != nil || len(labels) != len(evs) {
			abort()
			return trace, "driver: bad answer", ""
		}
		lab := labels[len(labels)-1]
		trace += ev + ":" + lab + " "
		switch ev[0] {
		case 'e':
			var d int
			fmt.Sscan(ev[1:], &d)
			mjml.VerifCacheEvict(ccDocs[d])
			continue
		case 'a':
			var ns int64
			fmt.Sscan(ev[1:], &ns)
			mjml.VerifShiftExpiries(time.Duration(ns))
			continue
		}
		var t int
		fmt.Sscan(ev[1:], &t)
		labelOf[t] = lab
		exp := ccExpected(lab)
		if exp == nil {
			abort()
			return trace, "unexpected Model label " + lab, ""
		}
		first := true
		for _, point := range exp {
			if !started[t] {
				started[t] = true
				launch(t) // the goroutine runs up to its first yield point by itself (Load, then pa.loaded)
			} else if first || true {
				c.grant[t] <- struct{}{}
			}
			first = false
			if point == "*finish" {
				// the hand-over and retirement of a leader pass through up to three more yield points
				for {
					select {
					case a := <-c.arrive:
						if a.tid != t || !(a.point == "assigned" || a.point == "signalled" || a.point == "deleting") {
							abort()
							return trace, fmt.Sprintf("thread %d should return (Model: %s), the implementation has thread %d at %s", t, lab, a.tid, a.point), ""
						}
						c.grant[t] <- struct{}{}
						continue
					case ft := <-c.finish:
						if ft != t {
							abort()
							return trace, fmt.Sprintf("thread %d returned, the Model expects thread %d to return", ft, t), ""
						}
						finished++
					case <-time.After(2 * time.Second):
						abort()
						return trace, fmt.Sprintf("thread %d should return (Model: %s): nothing within 2 s (blocked)", t, lab), "blocked-forever"
					}
					break
				}
				// what it returned: the stateless compiler's result (Model label done:ok<d> / done:err<d>)
				d := docOf[t]
				if got[t] != want[d] || gotErr[t] != wantErr[d] {
					abort()
					return trace, fmt.Sprintf("thread %d (document %d) returned %d bytes / error %q; the uncached compilation returns %d bytes / error %q", t, d, len(got[t]), gotErr[t], len(want[d]), wantErr[d]), "concurrent-result-differs-from-uncached"
				}
				continue
			}
			if msg := await(t, point); msg != "" {
				abort()
				return trace, msg, ""
			}
		}
	}
	// the cache holds an entry for exactly the documents the Model says
	_, enabled, present, _ := ask(evs)
	if len(enabled) == 0 {
		for d := range ccDocs {
			if mjml.VerifCacheHas(ccDocs[d]) != present[d] {
				return trace, fmt.Sprintf("after the schedule the cache %s an entry for document %d, the Model says the opposite", map[bool]string{true: "holds", false: "does not hold"}[mjml.VerifCacheHas(ccDocs[d])], d), ""
			}
		}
	} else {
		abort()
	}
	_ = finished
	return trace, "", ""
}

// ccReplays runs a number of model-guided schedules; part of C13 (transparency under concurrency) and C15
func ccReplays(res *Result, seed int64, nSched int, prop string) {
	drv, err := startDriver()
	if err != nil {
		res.Disagree(Violation{Sig: "driver-missing", Kind: "schedule", What: err.Error()})
		return
	}
	defer drv.Close()
	for i := 0; i < nSched; i++ {
		r := NewRng(seed, fmt.Sprintf("cc/sched/%d", i))
		n := 2 + i%4
		trace, problem, spec := ccReplay(drv, r, n)
		res.Case("cc|"+trace, strings.Contains(trace, "waiting") || strings.Contains(trace, "expired"))
		res.Count("cc-schedules")
		res.mu.Lock()
		res.Programs++
		res.DisagreementsChecked += len(strings.Fields(trace))
		res.mu.Unlock()
		if i%150 == 0 {
			res.Sample(map[string]interface{}{"kind": "concurrent-cache-schedule", "goroutines": n, "trace": trace})
		}
		if problem != "" {
			in := map[string]interface{}{"seed": seed, "index": i, "goroutines": n, "trace": trace}
			if spec != "" {
				res.Violate(Violation{Sig: spec, Kind: "schedule", What: problem, Input: in})
			} else {
				res.Disagree(Violation{Sig: "cc-label-mismatch", Kind: "schedule", What: problem, Input: in})
			}
			break
		}
	}
}
