namespace Gomjml.Amp
/-! Prototype for C18/C12: `escapeAttributeAmpersands` as a structural byte scanner, and two laws. -/

abbrev B := UInt8

def amp : B := 38      -- '&'
def semi : B := 59     -- ';'
def lt : B := 60
def gt : B := 62
def dq : B := 34
def sq : B := 39

/-- `isEntityTerminator` -/
def isTerm (b : B) : Bool :=
  b == semi || b == amp || b == 32 || b == 10 || b == 9 || b == dq || b == sq || b == lt || b == gt

/-- `isValidEntity` is a parameter here (a fixed table + numeric forms in the real model) -/
structure Ent where
  valid : List B → Bool

/-- does `rest` start with `name;` for a valid entity name?  (the look-ahead of the Go loop) -/
def entityAhead (E : Ent) (rest : List B) : Bool :=
  let name := rest.takeWhile (fun b => !isTerm b)
  match rest.dropWhile (fun b => !isTerm b) with
  | b :: _ => b == semi && E.valid name
  | [] => false

def ampEsc : List B := [amp, 97, 109, 112, semi]   -- "&amp;"

def cmOpen : List B := [33, 45, 45]                          -- "!--"   (behind the '<')
def cmClose : List B := [45, 45, 62]                         -- "-->"
def cdOpen : List B := [33, 91, 67, 68, 65, 84, 65, 91]      -- "![CDATA["
def cdClose : List B := [93, 93, 62]                         -- "]]>"

def closer (blk : Nat) : List B := if blk = 0 then cmClose else cdClose

/-- the scanner; `quote = 0` means "not inside a quoted attribute value".  Comments and CDATA sections are not markup
    (`nonMarkupEnd`): `sk` bytes are still to be copied as they are; `blk = 1` inside a comment, `blk = 2` inside a CDATA
    section (copied up to and including the terminator, or to the end of the text) -/
def esc (E : Ent) : (inTag : Bool) → (quote : B) → (sk blk : Nat) → List B → List B
  | _, _, _, _, [] => []
  | inTag, q, sk + 1, blk, b :: rest => b :: esc E inTag q sk blk rest
  | inTag, q, 0, blk + 1, b :: rest =>
    if (closer blk).isPrefixOf (b :: rest) then b :: esc E inTag q 2 0 rest
    else b :: esc E inTag q 0 (blk + 1) rest
  | inTag, q, 0, 0, b :: rest =>
    if q != 0 then
      if b == q then b :: esc E inTag 0 0 0 rest
      else if b == amp then
        (if entityAhead E rest then [b] else ampEsc) ++ esc E inTag q 0 0 rest
      else b :: esc E inTag q 0 0 rest
    else if b == lt && cmOpen.isPrefixOf rest then b :: esc E inTag 0 3 1 rest
    else if b == lt && cdOpen.isPrefixOf rest then b :: esc E inTag 0 8 2 rest
    else
      let inTag' := if b == lt then true else if b == gt then false else inTag
      let q' := if (b == dq || b == sq) && inTag then b else 0
      b :: esc E inTag' q' 0 0 rest

/-- **Law 1**: without any `&` the pass is the identity. -/
theorem esc_noamp (E : Ent) : ∀ (s : List B) (inTag : Bool) (q : B) (sk blk : Nat), (∀ b ∈ s, b ≠ amp) → esc E inTag q sk blk s = s
  | [], _, _, _, _, _ => by cases ‹Nat› <;> cases ‹Nat› <;> rfl
  | b :: rest, inTag, q, sk + 1, blk, h => by
    rw [esc, esc_noamp E rest _ _ _ _ (fun x hx => h x (by simp [hx]))]
  | b :: rest, inTag, q, 0, blk + 1, h => by
    have hr : ∀ x ∈ rest, x ≠ amp := fun x hx => h x (by simp [hx])
    rw [esc]
    split <;> rw [esc_noamp E rest _ _ _ _ hr]
  | b :: rest, inTag, q, 0, 0, h => by
    have hb : b ≠ amp := h b (by simp)
    have hr : ∀ x ∈ rest, x ≠ amp := fun x hx => h x (by simp [hx])
    rw [esc]
    by_cases hq : q != 0
    · simp only [hq, ite_true]
      by_cases hbq : b == q
      · simp [hbq, esc_noamp E rest inTag 0 0 0 hr]
      · have : (b == amp) = false := by simpa using hb
        simp [hbq, this, esc_noamp E rest inTag q 0 0 hr]
    · simp only [hq, Bool.false_eq_true, ite_false]
      split
      · rw [esc_noamp E rest _ _ _ _ hr]
      · split
        · rw [esc_noamp E rest _ _ _ _ hr]
        · simp [esc_noamp E rest _ _ _ _ hr]

/-- **Law 2**: outside quoted attribute values nothing changes (bytes are only rewritten while `quote ≠ 0`);
    stated for a text that contains no quote character at all. -/
theorem esc_noquote (E : Ent) : ∀ (s : List B) (inTag : Bool) (sk blk : Nat), (∀ b ∈ s, b ≠ dq ∧ b ≠ sq) → esc E inTag 0 sk blk s = s
  | [], _, _, _, _ => by cases ‹Nat› <;> cases ‹Nat› <;> rfl
  | b :: rest, inTag, sk + 1, blk, h => by
    rw [esc, esc_noquote E rest _ _ _ (fun x hx => h x (by simp [hx]))]
  | b :: rest, inTag, 0, blk + 1, h => by
    have hr : ∀ x ∈ rest, x ≠ dq ∧ x ≠ sq := fun x hx => h x (by simp [hx])
    rw [esc]
    split <;> rw [esc_noquote E rest _ _ _ hr]
  | b :: rest, inTag, 0, 0, h => by
    have hb := h b (by simp)
    have hr : ∀ x ∈ rest, x ≠ dq ∧ x ≠ sq := fun x hx => h x (by simp [hx])
    rw [esc]
    have h1 : (b == dq) = false := by simpa using hb.1
    have h2 : (b == sq) = false := by simpa using hb.2
    simp only [bne_self_eq_false, Bool.false_eq_true, ite_false, h1, h2, Bool.or_self, Bool.false_and]
    split
    · rw [esc_noquote E rest _ _ _ hr]
    · split
      · rw [esc_noquote E rest _ _ _ hr]
      · simp [esc_noquote E rest _ _ _ hr]

end Gomjml.Amp

namespace Gomjml.Amp

/-- `&amp;` is an entity the scanner leaves alone (given that `amp` is a valid entity name) -/
theorem entityAhead_amp (E : Ent) (hE : E.valid [97, 109, 112] = true) (rest : List B) :
    entityAhead E (97 :: 109 :: 112 :: semi :: rest) = true := by
  simp [entityAhead, isTerm, semi, amp, dq, sq, lt, gt, List.takeWhile, List.dropWhile, hE]

/-- inside a quoted value an ordinary byte (not the quote, not `&`) is copied -/
theorem esc_copy (E : Ent) (inTag : Bool) (q b : B) (rest : List B) (hq : (q != 0) = true) (hbq : (b == q) = false) (hba : (b == amp) = false) :
    esc E inTag q 0 0 (b :: rest) = b :: esc E inTag q 0 0 rest := by
  rw [esc]; simp [hq, hbq, hba]

/-- … and at an `&` the look-ahead decides -/
theorem esc_at_amp (E : Ent) (inTag : Bool) (q : B) (rest : List B) (hq : (q != 0) = true) (haq : (amp == q) = false) :
    esc E inTag q 0 0 (amp :: rest) = (if entityAhead E rest then [amp] else ampEsc) ++ esc E inTag q 0 0 rest := by
  rw [esc]; simp [hq, haq]

/-- `&amp;` itself is left exactly as written -/
theorem esc_amp_entity (E : Ent) (hE : E.valid [97, 109, 112] = true) (inTag : Bool) (q : B) (hq : q = dq ∨ q = sq) (rest : List B) :
    esc E inTag q 0 0 (ampEsc ++ rest) = ampEsc ++ esc E inTag q 0 0 rest := by
  have hamp := entityAhead_amp E hE rest
  have hq0 : (q != 0) = true := by rcases hq with rfl | rfl <;> decide
  have haq : (amp == q) = false := by rcases hq with rfl | rfl <;> decide
  have c1 : ((97 : B) == q) = false := by rcases hq with rfl | rfl <;> decide
  have c2 : ((109 : B) == q) = false := by rcases hq with rfl | rfl <;> decide
  have c3 : ((112 : B) == q) = false := by rcases hq with rfl | rfl <;> decide
  have c4 : (semi == q) = false := by rcases hq with rfl | rfl <;> decide
  show esc E inTag q 0 0 (amp :: 97 :: 109 :: 112 :: semi :: rest) = amp :: 97 :: 109 :: 112 :: semi :: esc E inTag q 0 0 rest
  rw [esc_at_amp E inTag q _ hq0 haq, hamp, esc_copy E inTag q 97 _ hq0 c1 (by decide), esc_copy E inTag q 109 _ hq0 c2 (by decide),
    esc_copy E inTag q 112 _ hq0 c3 (by decide), esc_copy E inTag q semi _ hq0 c4 (by decide)]
  rfl

/-- **a bare ampersand in an attribute value is read like `&amp;`**: inside a quoted value (either kind of quote), at a place
    where no entity follows, the scanner's output for `&…` and for `&amp;…` is the same — byte for byte, whatever comes after -/
theorem esc_bare_amp (E : Ent) (hE : E.valid [97, 109, 112] = true) (inTag : Bool) (q : B) (hq : q = dq ∨ q = sq)
    (rest : List B) (h : entityAhead E rest = false) :
    esc E inTag q 0 0 (amp :: rest) = esc E inTag q 0 0 (ampEsc ++ rest) := by
  have hq0 : (q != 0) = true := by rcases hq with rfl | rfl <;> decide
  have haq : (amp == q) = false := by rcases hq with rfl | rfl <;> decide
  rw [esc_amp_entity E hE inTag q hq rest, esc_at_amp E inTag q rest hq0 haq, h]
  rfl

/-! ### comments and CDATA sections are copied as they are -/

/-- `sk` bytes are copied whatever they are -/
theorem esc_skip (E : Ent) (inTag : Bool) (q : B) (blk : Nat) : ∀ (pre rest : List B),
    esc E inTag q pre.length blk (pre ++ rest) = pre ++ esc E inTag q 0 blk rest
  | [], rest => rfl
  | b :: pre, rest => by
    show esc E inTag q (pre.length + 1) blk (b :: (pre ++ rest)) = b :: (pre ++ esc E inTag q 0 blk rest)
    rw [esc, esc_skip E inTag q blk pre rest]

/-- the body of a block does not contain its terminator early -/
def endsOnlyAt (close body : List B) : Prop := ∀ k, k < body.length → close.isPrefixOf ((body ++ close).drop k) = false

theorem endsOnlyAt_tail {close : List B} {x : B} {t : List B} (h : endsOnlyAt close (x :: t)) : endsOnlyAt close t := by
  intro k hk
  have := h (k + 1) (by simpa using hk)
  simpa using this

theorem isPrefixOf_append_left' : ∀ (l a b : List B), l.length ≤ a.length → l.isPrefixOf (a ++ b) = l.isPrefixOf a
  | [], _, _, _ => by simp
  | x :: l, [], _, h => by simp at h
  | x :: l, y :: a, b, h => by
    simp only [List.cons_append, List.isPrefixOf]
    rw [isPrefixOf_append_left' l a b (by simpa using h)]

/-- inside a block (`blk + 1`) everything up to and including the terminator is copied, then scanning goes on in the state
    it was left in -/
theorem esc_block (E : Ent) (inTag : Bool) (q : B) (blk : Nat) (hlen : (closer blk).length = 3) : ∀ (body rest : List B),
    endsOnlyAt (closer blk) body →
    esc E inTag q 0 (blk + 1) (body ++ closer blk ++ rest) = body ++ closer blk ++ esc E inTag q 0 0 rest
  | [], rest, _ => by
    match hc : closer blk, hlen with
    | [c1, c2, c3], _ =>
      have hp : (closer blk).isPrefixOf (c1 :: ([c2, c3] ++ rest)) = true := by
        rw [hc]; exact List.isPrefixOf_iff_prefix.mpr ⟨rest, rfl⟩
      show esc E inTag q 0 (blk + 1) (c1 :: ([c2, c3] ++ rest)) = _
      rw [esc]
      simp only [hp, if_true]
      have := esc_skip E inTag q 0 [c2, c3] rest
      simp only [List.length_cons, List.length_nil] at this
      rw [this]; rfl
  | x :: t, rest, h => by
    have h0 : (closer blk).isPrefixOf (x :: t ++ closer blk) = false := by simpa using h 0 (by simp)
    have h0' : (closer blk).isPrefixOf (x :: (t ++ closer blk ++ rest)) = false := by
      have := isPrefixOf_append_left' (closer blk) (x :: t ++ closer blk) rest (by simp [hlen])
      simpa [List.append_assoc] using this.trans h0
    show esc E inTag q 0 (blk + 1) (x :: (t ++ closer blk ++ rest)) = x :: (t ++ closer blk ++ esc E inTag q 0 0 rest)
    rw [esc]
    simp only [h0', Bool.false_eq_true, if_false]
    rw [esc_block E inTag q blk hlen t rest (endsOnlyAt_tail h)]

/-- **a comment is not markup**: outside a quoted value, `<!-- body -->` is copied exactly as written — quotes, ampersands,
    angle brackets and all — and the scanner goes on behind it in the state it was in -/
theorem esc_comment (E : Ent) (inTag : Bool) (body rest : List B) (h : endsOnlyAt cmClose body) :
    esc E inTag 0 0 0 (lt :: cmOpen ++ body ++ cmClose ++ rest) = lt :: cmOpen ++ body ++ cmClose ++ esc E inTag 0 0 0 rest := by
  have hp : cmOpen.isPrefixOf (cmOpen ++ body ++ cmClose ++ rest) = true := by
    rw [List.append_assoc, List.append_assoc]; exact List.isPrefixOf_iff_prefix.mpr ⟨_, rfl⟩
  show esc E inTag 0 0 0 (lt :: (cmOpen ++ body ++ cmClose ++ rest)) = _
  rw [esc]
  simp only [bne_self_eq_false, Bool.false_eq_true, if_false, beq_self_eq_true, hp, Bool.and_self, if_true]
  have hs := esc_skip E inTag 0 1 cmOpen (body ++ cmClose ++ rest)
  have hb := esc_block E inTag 0 0 rfl body rest h
  simp only [closer, if_true] at hb
  have e : cmOpen ++ body ++ cmClose ++ rest = cmOpen ++ (body ++ cmClose ++ rest) := by simp [List.append_assoc]
  rw [e]
  show lt :: esc E inTag 0 cmOpen.length 1 (cmOpen ++ (body ++ cmClose ++ rest)) = _
  rw [hs, hb]
  simp [List.append_assoc]

/-- **a CDATA section is character data**: `<![CDATA[ body ]]>` is copied exactly as written -/
theorem esc_cdata (E : Ent) (inTag : Bool) (body rest : List B) (h : endsOnlyAt cdClose body) :
    esc E inTag 0 0 0 (lt :: cdOpen ++ body ++ cdClose ++ rest) = lt :: cdOpen ++ body ++ cdClose ++ esc E inTag 0 0 0 rest := by
  have hp : cdOpen.isPrefixOf (cdOpen ++ body ++ cdClose ++ rest) = true := by
    rw [List.append_assoc, List.append_assoc]; exact List.isPrefixOf_iff_prefix.mpr ⟨_, rfl⟩
  have hn : cmOpen.isPrefixOf (cdOpen ++ body ++ cdClose ++ rest) = false := by
    simp [cmOpen, cdOpen, List.isPrefixOf]
  show esc E inTag 0 0 0 (lt :: (cdOpen ++ body ++ cdClose ++ rest)) = _
  rw [esc]
  simp only [bne_self_eq_false, Bool.false_eq_true, if_false, beq_self_eq_true, hp, hn, Bool.and_self, Bool.and_false, if_true]
  have hs := esc_skip E inTag 0 2 cdOpen (body ++ cdClose ++ rest)
  have hb := esc_block E inTag 0 1 rfl body rest h
  simp only [closer, Nat.succ_ne_zero, if_false] at hb
  have e : cdOpen ++ body ++ cdClose ++ rest = cdOpen ++ (body ++ cdClose ++ rest) := by simp [List.append_assoc]
  rw [e]
  show lt :: esc E inTag 0 cdOpen.length 2 (cdOpen ++ (body ++ cdClose ++ rest)) = _
  rw [hs, hb]
  simp [List.append_assoc]

end Gomjml.Amp
