package main

import (
	"encoding/hex"
	"encoding/xml"
	"fmt"
	"io"
	"strings"

	"github.com/preslavrachev/gomjml/mjml"
	"github.com/preslavrachev/gomjml/parser"
)

// showReal prints a parsed tree in the driver's `tree` output format (hex fields, adjacent text merged as the parser stores it).
func showReal(n *parser.MJMLNode) string {
	hx := func(s string) string { return hex.EncodeToString([]byte(s)) }
	var b strings.Builder
	b.WriteString("(" + hx(nameOf(n.XMLName)) + " [")
	for i, a := range n.Attrs {
		if i > 0 {
			b.WriteString(",")
		}
		b.WriteString(hx(nameOf(a.Name)) + "=" + hx(a.Value))
	}
	b.WriteString("] ")
	for _, p := range n.MixedContent {
		if p.Node != nil {
			b.WriteString(showReal(p.Node) + " ")
		} else if p.Text != "" {
			b.WriteString("t:" + hx(p.Text) + " ")
		}
	}
	b.WriteString(")")
	return b.String()
}

func nameOf(n xml.Name) string {
	if n.Space != "" {
		return n.Space + "|" + n.Local
	}
	return n.Local
}

// xmlTokens: the plain encoding/xml token stream of a document, in the driver's `tree` input format.
func xmlTokens(src string) ([]string, error) {
	hx := func(s string) string { return hex.EncodeToString([]byte(s)) }
	dec := xml.NewDecoder(strings.NewReader(src))
	var out []string
	started := false
	for {
		tok, err := dec.Token()
		if err == io.EOF {
			return out, nil
		}
		if err != nil {
			return nil, err
		}
		switch t := tok.(type) {
		case xml.StartElement:
			started = true
			var as []string
			for _, a := range t.Attr {
				as = append(as, hx(nameOf(a.Name))+"="+hx(a.Value))
			}
			out = append(out, "s:"+hx(nameOf(t.Name))+":"+strings.Join(as, ","))
		case xml.EndElement:
			out = append(out, "e:"+hx(nameOf(t.Name)))
		case xml.CharData:
			if started {
				out = append(out, "c:"+hx(string(t)))
			}
		case xml.Comment:
			if started {
				out = append(out, "m:"+hx(string(t)))
			}
		}
	}
}

// strict XML documents over arbitrary element / attribute names and text (no lenient feature used)
func genStrictXML(r *Rng) string {
	names := []string{"mjml", "a", "b", "mj-x", "ns:el", "Item", "x_y", "d.e", "mj-body", "mj-section"}
	texts := []string{"", "hello", " spaced  text ", "a &amp; b", "&lt;tag&gt;", "&#65;&#x42;", "line\nbreak", "\ttab", "é ü", "quote \" ' here", "]] >", "&#x1F600;&#128512;", "&#x00000E9;",
		// CDATA sections are plain XML: whatever stands in them — quotes, ampersands, things that look like tags or entities — is
		// character data as written
		"<![CDATA[plain]]>", "<![CDATA[a & b <c d=\"e & f\"> &copy; &amp; &#65;]]>", "<![CDATA[ 5\" screen ]]>", "x<![CDATA[ it's \"q & r\" ]]>y", "<![CDATA[]]>", "<![CDATA[<!-- \" -->]]>"}
	avals := []string{"v", "", "a b", "x&amp;y", "&lt;", "&quot;q&quot;", "&apos;", "é", "1&#50;3", " lead", "a\tb", "hi &#x1F600; there", "&#128512;", "&#x00000E9;", "&#0000233;x", "a&#x10FFFF;&#65;"}
	var gen func(depth int) string
	gen = func(depth int) string {
		n := r.Pick(names[1:])
		if strings.HasPrefix(n, "mj-") && r.Bool(1, 2) {
			n = "zz"
		}
		var b strings.Builder
		b.WriteString("<" + n)
		used := map[string]bool{}
		for i, k := 0, r.Intn(4); i < k; i++ {
			// (names that share a local name under different prefixes are different attributes: a plain parser reports both)
			a := r.Pick([]string{"id", "k", "data-x", "xml:lang", "A", "b-c", "lang", "p:id", "q:id", "p:k"})
			if used[a] {
				continue
			}
			used[a] = true
			q := r.Pick([]string{`"`, `'`})
			v := r.Pick(avals)
			if q == `'` {
				v = strings.ReplaceAll(v, "'", "&apos;")
			} else {
				v = strings.ReplaceAll(v, `"`, "&quot;")
			}
			b.WriteString(" " + a + "=" + q + v + q)
		}
		if depth > 3 || r.Bool(1, 5) {
			if r.Bool(1, 2) {
				b.WriteString("/>")
			} else {
				b.WriteString(">" + strings.ReplaceAll(r.Pick(texts), `"`, `"`) + "</" + n + ">")
			}
			return b.String()
		}
		b.WriteString(">")
		for i, k := 0, r.Intn(4); i < k; i++ {
			switch r.Intn(4) {
			case 0:
				b.WriteString(r.Pick(texts))
			case 1:
				b.WriteString("<!-- c" + fmt.Sprint(i) + r.Pick([]string{"", "", " 5\" ", " it's ", " \"a & b\" ", " <x y=\"", " 'p & q' > "}) + " -->")
			default:
				b.WriteString(gen(depth + 1))
			}
		}
		b.WriteString("</" + n + ">")
		return b.String()
	}
	root := "<mjml"
	if r.Bool(1, 3) {
		root += ` lang="en"`
	}
	var b strings.Builder
	b.WriteString(root + ">")
	for i, k := 0, 1+r.Intn(4); i < k; i++ {
		if r.Bool(1, 3) {
			b.WriteString(r.Pick(texts))
		}
		b.WriteString(gen(0))
	}
	b.WriteString("</mjml>")
	return b.String()
}

func runC18(res *Result, tier string, seed int64, replay string) {
	res.Rule = "(1) strict documents: seeded well-formed XML over arbitrary element / attribute names, both quote styles, XML escapes and character references in text and attribute values, comments, nested to depth 5; the AST returned by parser.ParseMJML must print exactly like the tree the Lean Model builds (driver `tree`: parseDoc) from the token stream a PLAIN encoding/xml decoder reports for the same bytes — names, attribute values decoded once, child order, interleaving of text and elements; (2) strict / lenient spelling pairs on grammar documents: bare & vs &amp; in attribute values, HTML named entities vs the character, raw HTML in mj-text vs the same content in CDATA, prolog (comments, blank lines, BOM, XML declaration, doctype) vs none — rendered output must be identical; (3) pre-passes byte for byte: real stripNonMSOComments / escapeAttributeAmpersands / preprocessHTMLEntities / the CDATA escaping (verif exports) vs the Lean models (driver `strip` `amp` `ent` `cdesc`) on fixtures, generated documents and hostile strings. Non-trivial = document with ≥1 attribute value or text containing an escape; distinct by source"
	drv, err := startDriverPool(8)
	if err != nil {
		res.Disagree(Violation{Sig: "driver-missing", What: err.Error()})
		return
	}
	defer drv.Close()
	n := 600
	if tier == "thorough" {
		n = 20000
	}
	var srcs []string
	if replay != "" {
		if s, ok := replayInput(replay); ok {
			srcs = append(srcs, s)
		}
	} else {
		for i := 0; i < n; i++ {
			srcs = append(srcs, genStrictXML(NewRng(seed, fmt.Sprintf("c18/x/%d", i))))
		}
	}
	// ---- (1) differential against encoding/xml through the Lean tree builder
	parallel(8, len(srcs), func(i int) {
		src := srcs[i]
		toks, terr := xmlTokens(src)
		ast, perr := parser.ParseMJML(src)
		res.Case(src, strings.Contains(src, "&"))
		if i%150 == 0 {
			res.Sample(map[string]string{"kind": "strict-xml", "source": short(src, 300)})
		}
		in := map[string]string{"source": src}
		if terr != nil {
			res.Count("strict:generator-produced-ill-formed")
			return
		}
		if perr != nil {
			res.Violate(Violation{Sig: "strict-document-rejected", Kind: "input", What: "well-formed XML rejected: " + perr.Error(), Input: in})
			return
		}
		want, derr := drv.Ask("tree " + strings.Join(toks, " "))
		res.mu.Lock()
		res.Programs++
		res.DisagreementsChecked++
		res.mu.Unlock()
		if derr != nil || want == "reject" || want == "bad-token" {
			res.Disagree(Violation{Sig: "tree-model-rejects", Kind: "input", What: "the Lean tree builder rejects a token stream the parser accepted: " + want, Input: in})
			return
		}
		got := showReal(ast)
		if got != want {
			at := firstDiff(got, want)
			res.Violate(Violation{Sig: "ast-differs-from-xml", Kind: "input", What: fmt.Sprintf("AST differs from what a plain XML parser reports at %d: …%s… vs …%s…", at, around(got, at), around(want, at)), Input: in})
		}
	})
	if replay != "" {
		return
	}
	// ---- (2) strict / lenient pairs (sequential: heads may differ)
	type pair struct{ name, lenient, strict string }
	var pairs []pair
	wrap := func(inner string) string {
		return "<mjml><mj-body><mj-section><mj-column>" + inner + "</mj-column></mj-section></mj-body></mjml>"
	}
	pairs = append(pairs,
		pair{"bare-amp-attr", wrap(`<mj-image src="http://x/i.png?a=1&b=2&c"/>`), wrap(`<mj-image src="http://x/i.png?a=1&amp;b=2&amp;c"/>`)},
		pair{"bare-amp-href", wrap(`<mj-button href="http://x/?q=a&r=b">Go</mj-button>`), wrap(`<mj-button href="http://x/?q=a&amp;r=b">Go</mj-button>`)},
		pair{"named-entity-copy", wrap(`<mj-text>a &copy; b</mj-text>`), wrap("<mj-text>a © b</mj-text>")},
		pair{"named-entity-nbsp-button", wrap(`<mj-button href="u">a&nbsp;b</mj-button>`), wrap("<mj-button href=\"u\">a b</mj-button>")},
		pair{"named-entity-behind-comment", wrap(`<!-- &copy; 2023 --><mj-text>x &copy; y</mj-text>`), wrap("<!-- &copy; 2023 --><mj-text>x © y</mj-text>")},
		pair{"named-entity-behind-cdata-text", wrap(`<mj-text><![CDATA[write &nbsp; here]]></mj-text><mj-text>a&nbsp;b</mj-text>`), wrap("<mj-text><![CDATA[write &nbsp; here]]></mj-text><mj-text>a\u00a0b</mj-text>")},
		pair{"named-entity-behind-comment-in-attribute", wrap(`<!-- &mdash; --><mj-image src="i.png" alt="a &mdash; b"/>`), wrap("<!-- &mdash; --><mj-image src=\"i.png\" alt=\"a — b\"/>")},
		// comment and CDATA terminators that come with a longer run of the same byte (content ending in ']' or '-'): what follows
		// is markup again
		pair{"entity-behind-cdata-ending-in-brackets", wrap(`<mj-raw><![CDATA[a[b[0]]]]></mj-raw><mj-text>x &copy; y</mj-text><mj-image src="i.png?a=1&b=2" alt="a &mdash; b"/>`),
			wrap("<mj-raw><![CDATA[a[b[0]]]]></mj-raw><mj-text>x © y</mj-text><mj-image src=\"i.png?a=1&amp;b=2\" alt=\"a — b\"/>")},
		pair{"entity-behind-cdata-ending-in-one-bracket", wrap(`<mj-raw><![CDATA[see [1]]]></mj-raw><mj-button href="u?x=1&y=2">a&nbsp;b</mj-button>`),
			wrap("<mj-raw><![CDATA[see [1]]]></mj-raw><mj-button href=\"u?x=1&amp;y=2\">a\u00a0b</mj-button>")},
		pair{"entity-behind-comment-ending-in-dashes", wrap(`<!-- rule ----><mj-text>x &reg; y</mj-text><mj-image src="i.png?a=1&b=2"/>`),
			wrap("<!-- rule ----><mj-text>x ® y</mj-text><mj-image src=\"i.png?a=1&amp;b=2\"/>")},
		pair{"named-entity-mdash", wrap(`<mj-text>x &mdash; y &hellip;</mj-text>`), wrap("<mj-text>x — y …</mj-text>")},
		pair{"raw-html-vs-cdata", wrap(`<mj-text>Hi <b>bold</b> &amp; <br> more</mj-text>`), wrap(`<mj-text><![CDATA[Hi <b>bold</b> &amp; <br> more]]></mj-text>`)},
		pair{"raw-html-cdata-end", wrap(`<mj-text>a ]]&gt; b</mj-text>`), wrap(`<mj-text><![CDATA[a ]]&gt; b]]></mj-text>`)},
		pair{"end-tag-space", wrap(`<mj-text>A</mj-text ><mj-button href="u">B</mj-button><mj-text>C</mj-text>`), wrap(`<mj-text>A</mj-text><mj-button href="u">B</mj-button><mj-text>C</mj-text>`)},
		pair{"end-tag-newline", wrap("<mj-text>A</mj-text\n   ><mj-divider/><mj-text>C</mj-text\t>"), wrap(`<mj-text>A</mj-text><mj-divider/><mj-text>C</mj-text>`)},
		pair{"end-tag-space-other", wrap(`<mj-button href="u">B</mj-button ><mj-text>C</mj-text>`), wrap(`<mj-button href="u">B</mj-button><mj-text>C</mj-text>`)},
		pair{"self-closing-raw", "<mjml><mj-body><mj-raw/><mj-section><mj-column><mj-raw /><mj-text>T</mj-text><mj-raw position=\"x\"/></mj-column></mj-section><mj-raw/></mj-body></mjml>",
			"<mjml><mj-body><mj-raw></mj-raw><mj-section><mj-column><mj-raw></mj-raw><mj-text>T</mj-text><mj-raw position=\"x\"></mj-raw></mj-column></mj-section><mj-raw></mj-raw></mj-body></mjml>"},
		pair{"self-closing-ending-tags", wrap(`<mj-text/><mj-button href="u"/><mj-table/><mj-text>after</mj-text><mj-navbar><mj-navbar-link href="/a"/></mj-navbar><mj-social><mj-social-element name="facebook" href="h"/></mj-social>`),
			wrap(`<mj-text></mj-text><mj-button href="u"></mj-button><mj-table></mj-table><mj-text>after</mj-text><mj-navbar><mj-navbar-link href="/a"></mj-navbar-link></mj-navbar><mj-social><mj-social-element name="facebook" href="h"></mj-social-element></mj-social>`)},
		pair{"self-closing-head", "<mjml><mj-head><mj-title/><mj-preview/><mj-style/><mj-attributes/></mj-head><mj-body><mj-section><mj-column><mj-text>T</mj-text></mj-column></mj-section></mj-body></mjml>",
			"<mjml><mj-head><mj-title></mj-title><mj-preview></mj-preview><mj-style></mj-style><mj-attributes></mj-attributes></mj-head><mj-body><mj-section><mj-column><mj-text>T</mj-text></mj-column></mj-section></mj-body></mjml>"},
		pair{"quot-in-attr", wrap(`<mj-image src="x.png" alt="say &quot;hi&quot;"/>`), wrap(`<mj-image src="x.png" alt='say "hi"'/>`)},
		pair{"lt-in-title", "<mjml><mj-head><mj-title>a &lt; b</mj-title></mj-head><mj-body><mj-section><mj-column><mj-text>t</mj-text></mj-column></mj-section></mj-body></mjml>",
			"<mjml><mj-head><mj-title><![CDATA[a < b]]></mj-title></mj-head><mj-body><mj-section><mj-column><mj-text>t</mj-text></mj-column></mj-section></mj-body></mjml>"},
	)
	// a bare ampersand in an attribute value behind material that is not markup: comments and CDATA sections whose text contains
	// quotes (paired or not), angle brackets, ampersands — between elements, inside content, in the head, at body level
	notMarkup := []string{`<!-- 5" screen -->`, `<!-- it's -->`, `<!-- "a" 'b -->`, `<!-- <a b=" -->`, `<!-- > " < -->`, `<!-- a & b -->`, `<!-- "x & y" -->`}
	cdatas := []string{`<![CDATA[ 5" ]]>`, `<![CDATA[it's "x]]>`, `<![CDATA[<a b="]]>`, `<![CDATA["a & b"]]>`}
	for _, nm := range append(append([]string{}, notMarkup...), cdatas...) {
		isCD := strings.HasPrefix(nm, "<![")
		var docs []string
		docs = append(docs, wrap(`<mj-text>before `+nm+` after</mj-text><mj-image src="http://x/i.png?a=1&AMPb=2"/>`),
			wrap(`<mj-raw>`+nm+`</mj-raw><mj-button href="http://x/?q=a&AMPr=b">Go</mj-button>`),
			wrap(`<mj-button href="u">B `+nm+`</mj-button><mj-image src="http://x/i.png?a=1&AMPb=2" href="http://x/?c&AMPd"/>`))
		if !isCD {
			docs = append(docs, wrap(nm+`<mj-image src="http://x/i.png?a=1&AMPb=2"/>`+nm+`<mj-button href="http://x/?q=a&AMPr=b">Go</mj-button>`),
				`<mjml><mj-head>`+nm+`<mj-title>t</mj-title></mj-head><mj-body>`+nm+`<mj-section><mj-column><mj-image src="http://x/i.png?a=1&AMPb=2"/></mj-column></mj-section></mj-body></mjml>`,
				`<mjml><mj-body><mj-section>`+nm+`<mj-column><mj-text>T</mj-text></mj-column></mj-section><mj-section background-url="http://x/bg.png?a=1&AMPb=2"><mj-column><mj-text>U</mj-text></mj-column></mj-section></mj-body></mjml>`)
		}
		for _, d := range docs {
			pairs = append(pairs, pair{"bare-amp-behind-non-markup:" + nm, strings.ReplaceAll(d, "&AMP", "&"), strings.ReplaceAll(d, "&AMP", "&amp;")})
		}
	}
	base := wrap(`<mj-text>T <b>b</b></mj-text><mj-image src="x.png" alt="a &amp; b"/><mj-raw><div class="tracking">raw</div></mj-raw><mj-table><tr><td>c</td></tr></mj-table>`)
	base = strings.Replace(base, "<mj-body>", `<mj-head><mj-raw><meta name="x" content="y"/></mj-raw><mj-style>.a { color: red; }</mj-style></mj-head><mj-body>`, 1)
	// comments whose body begins or ends with the characters of the comment delimiters themselves (all well-formed XML)
	for _, body := range trickyCommentBodies {
		pre := "<!--" + body + "-->"
		pairs = append(pairs, pair{"prolog-comment:" + fmt.Sprintf("%q", body), pre + "\n" + base, base})
		pairs = append(pairs, pair{"prolog-comment:" + fmt.Sprintf("%q", body), "<!-- a -->" + pre + "<!-- b -->" + base, base})
	}
	for _, pre := range []string{"<!-- c -->", "\n\n  \n", "\xef\xbb\xbf", `<?xml version="1.0" encoding="UTF-8"?>` + "\n", "<!DOCTYPE mjml>\n", "\xef\xbb\xbf<?xml version=\"1.0\"?>\n<!-- c1 -->\n\n<!-- c2 -->\n"} {
		pairs = append(pairs, pair{"prolog:" + fmt.Sprintf("%q", short(pre, 14)), pre + base, base})
	}
	for i := 0; i < 120; i++ {
		r := NewRng(seed, fmt.Sprintf("c18/p/%d", i))
		d := genRich(r, &RichOpts{Head: true, MaxAttrs: 3, Features: true})
		strict := d.MJML()
		// lenient spelling: un-escape &amp; inside attribute values that are URLs
		lenient := strings.ReplaceAll(strict, "x=1&amp;y=2", "x=1&y=2")
		pairs = append(pairs, pair{"generated-bare-amp", lenient, strict})
		pairs = append(pairs, pair{"generated-prolog", "<!-- lead -->\n" + strict, strict})
	}
	for _, p := range pairs {
		hl, el := renderPlain(p.lenient)
		hs, es := renderPlain(p.strict)
		res.Case(p.lenient+"|"+p.strict, p.lenient != p.strict)
		res.Count("pair=" + strings.SplitN(p.name, ":", 2)[0])
		es1, el1 := "", ""
		if es != nil {
			es1 = es.Error()
		}
		if el != nil {
			el1 = el.Error()
		}
		if alphaIDs(hl) != alphaIDs(hs) || es1 != el1 {
			at := firstDiff(alphaIDs(hl), alphaIDs(hs))
			cls := strings.SplitN(p.name, ":", 2)[0]
			res.Violate(Violation{Sig: "lenient-differs-from-strict|" + cls, Kind: "input",
				What:  fmt.Sprintf("%s: lenient spelling renders differently from its strict spelling at %d: …%s… vs …%s… (errors %q / %q)", p.name, at, around(alphaIDs(hl), at), around(alphaIDs(hs), at), el1, es1),
				Input: map[string]string{"source": p.lenient, "strict": p.strict}})
		}
	}
	// ---- (3) pre-passes byte for byte
	var texts []string
	for _, f := range loadFixtures() {
		texts = append(texts, f.MJML)
	}
	texts = append(texts, srcs[:min(len(srcs), 200)]...)
	hostile := []string{"", "&", "&&", "a=\"&\"", "<a b=\"&#x1F600; &#128512; &#x00000E9; &#00000000065; &hellip; &divide; &abcdefghij; &#xabcdefg;\">", "<a b=\"x&y;z\" c='&amp;&lt;&bogus;&#12;&#x1f;&#;&#x;'>&copy;&nbsp;&#160;&#xA0;</a>", "<!-- <mjml> --> <MJML>", "<!--unterminated <mjml>",
		"  \r\n\t<mjml>", "<!-- a --><!-- b -->x<!-- c --> <mjml a='\"&'>", "]]>", "a]]>b]]]>c]]", "<mjml", "<mjm", "<!---->", "<!--->", "\xff\xfe<mjml>", "<a 'q\"&x' \"r'&y\">"}
	texts = append(texts, hostile...)
	for _, body := range trickyCommentBodies {
		texts = append(texts, "<!--"+body+"--><mjml><mj-body></mj-body></mjml>", "<!-- a --><!--"+body+"-->\n<mjml a=\"b\">", "<!--"+body+"--><!--"+body+"--><mjml/>")
	}
	for i := 0; i < 300; i++ {
		r := NewRng(seed, fmt.Sprintf("c18/m/%d", i))
		texts = append(texts, mutateBytes(r, texts[r.Intn(len(texts))]))
	}
	// the texts made of the pieces the passes look at (shared with C17), with the deterministic entity-behind-comment / CDATA texts
	texts = append(texts, wrapTexts(seed, 150)...)
	prepassCorrespondence(res, drv, texts)
	_ = mjml.Render
}

// bodies of well-formed XML comments that overlap the delimiters when scanned carelessly
var trickyCommentBodies = []string{">", "->", "> note ", "-> note ", "<", "<!", "<!-", " <!-- ", "<mjml>", " <mjml> </mjml> ", "-", " - ", "- -", "]]>", "&", "'", "\"", "?>", "<?xml?>", "", " ", ">-", ">->"}

func init() { register("C18", runC18) }
