import Gomjml.Core.Tree
import Gomjml.Core.Cdata
/-! # C18 — the parser is a faithful, conservative extension of an XML parser (property theorems only) -/
namespace Gomjml.Props.C18
open Gomjml.Tree Gomjml.Passes Gomjml.Amp

/-- the tree builder adds and loses nothing: whatever `parseNode` accepts is exactly the serialisation of the tree it
    returns — element names, attribute lists, child order and the interleaving of text and child elements -/
theorem C18_tree_sound (ts : List XTok) (n : Node) (hc : noComment ts = true) (h : parseDoc ts = some n) :
    ∃ rest, ts = n.toks ++ rest := parseDoc_sound ts n hc h

/-- … and conversely nothing is added: the serialisation of any tree is read back as exactly that tree (so the builder is a
    bijection between well-nested token streams and trees) -/
theorem C18_tree_complete (n : Node) (rest : List XTok) : parseDoc (n.toks ++ rest) = some n := parseDoc_complete n rest

/-- strict documents pass the entity pre-pass unchanged (no `&` at all: nothing to rewrite) … -/
theorem C18_entities_identity (s : List B) (h : ∀ b ∈ s, b ≠ amp) : entities s = s := entities_noamp s h
/-- … the ampersand pass rewrites nothing outside quoted attribute values … -/
theorem C18_amp_outside_quotes (E : Ent) (s : List B) (inTag : Bool) (h : ∀ b ∈ s, b ≠ dq ∧ b ≠ sq) : esc E inTag 0 0 0 s = s :=
  esc_noquote E s inTag 0 0 h
/-- … and nothing at all without an ampersand -/
theorem C18_amp_identity (E : Ent) (s : List B) (inTag : Bool) (q : B) (h : ∀ b ∈ s, b ≠ amp) : esc E inTag q 0 0 s = s :=
  esc_noamp E s inTag q 0 0 h

/-- **comments and CDATA sections are not markup** (plain XML): outside a quoted value, `<!-- … -->` and `<![CDATA[ … ]]>` pass
    the ampersand pre-pass exactly as written — whatever quotes, ampersands or angle brackets their text contains — and the
    scanner goes on behind them in the state it was in (so a quote inside them opens no attribute value).  False of the code
    before the repair: `<!-- 5" -->` made a later bare `&` in an attribute value a parse error -/
theorem C18_non_markup_verbatim (E : Ent) (inTag : Bool) (body rest : List B) :
    (endsOnlyAt cmClose body →
      esc E inTag 0 0 0 (lt :: cmOpen ++ body ++ cmClose ++ rest) = lt :: cmOpen ++ body ++ cmClose ++ esc E inTag 0 0 0 rest) ∧
    (endsOnlyAt cdClose body →
      esc E inTag 0 0 0 (lt :: cdOpen ++ body ++ cdClose ++ rest) = lt :: cdOpen ++ body ++ cdClose ++ esc E inTag 0 0 0 rest) :=
  ⟨esc_comment E inTag body rest, esc_cdata E inTag body rest⟩

/-- non-vacuity: the body ` 5" & ` ends only at its terminator, for both kinds of block -/
example : endsOnlyAt cmClose [32, 53, 34, 32, 38, 32] ∧ endsOnlyAt cdClose [32, 53, 34, 32, 38, 32] := by
  constructor <;> intro k hk <;>
    (have : k < 6 := hk; match k, this with | 0, _ | 1, _ | 2, _ | 3, _ | 4, _ | 5, _ => decide)

/-- **a bare ampersand in an attribute value parses like `&amp;`**: inside a quoted attribute value, at a place where no
    entity follows, the pre-pass writes the same bytes for `&…` as for `&amp;…` (and leaves `&amp;` as it is) — for the real
    entity table (regenerated), either kind of quote, whatever follows -/
theorem C18_bare_amp_like_escaped (inTag : Bool) (q : B) (hq : q = dq ∨ q = sq) (rest : List B)
    (h : entityAhead entTable rest = false) :
    esc entTable inTag q 0 0 (amp :: rest) = esc entTable inTag q 0 0 (ampEsc ++ rest) ∧
    esc entTable inTag q 0 0 (ampEsc ++ rest) = ampEsc ++ esc entTable inTag q 0 0 rest :=
  ⟨esc_bare_amp entTable (by decide) inTag q hq rest h, esc_amp_entity entTable (by decide) inTag q hq rest⟩

/-- non-vacuity: `href="a?x=1&y=2"` and `href="a?x=1&amp;y=2"` come out of the pre-pass as the same bytes -/
example : escapeAmp [60, 97, 32, 104, 114, 101, 102, 61, 34, 97, 63, 120, 61, 49, 38, 121, 61, 50, 34, 62] = escapeAmp [60, 97, 32, 104, 114, 101, 102, 61, 34, 97, 63, 120, 61, 49, 38, 97, 109, 112, 59, 121, 61, 50, 34, 62] := by decide

/-- **HTML-only named entities parse like their characters**: each replacement step, at an occurrence of its entity, writes
    the replacement and continues behind it … -/
theorem C18_named_entity_replaced (old new rest : List B) (h : old.head? = some amp) :
    replaceAllM old new (old ++ rest) = new ++ replaceAllM old new rest := replaceAllM_prefix old new rest h

/-- … while inside a comment or a CDATA section the same letters are character data and stay as written (plain XML): the
    replacement steps copy such a block whole.  False of the code before the repair: `<![CDATA[&copy;]]>` was read as `©` -/
theorem C18_entities_not_in_non_markup (old new s : List B) (ho : old ≠ []) (hk : 0 < nonMarkupLen s) :
    replaceAllM old new s = s.take (nonMarkupLen s) ++ replaceAllM old new (s.drop (nonMarkupLen s)) :=
  replaceAllM_block old new s ho hk

/-- non-vacuity: `<![CDATA[&copy;]]>x` starts with a block of 18 bytes; `<!-->` is an unterminated comment -/
example : nonMarkupLen [60, 33, 91, 67, 68, 65, 84, 65, 91, 38, 99, 111, 112, 121, 59, 93, 93, 62, 120] = 18 ∧
    nonMarkupLen [60, 33, 45, 45, 62] = 5 ∧ nonMarkupLen [60, 98, 62] = 0 := by decide

/-- … and (regenerated table) the replacements are exactly the UTF-8 bytes of the characters the entities name: © (C2 A9), ® (C2 AE),
    ™ (E2 84 A2), the no-break space (C2 A0, also for its two numeric spellings), – — … (E2 80 93 / 94 / A6); none contains a byte that means anything to XML -/
theorem C18_named_entities_are_their_characters :
    Gomjml.Gen.Parser.entityStepsB.map (fun st => st.2) =
      [[194, 169], [194, 174], [226, 132, 162], [194, 160], [194, 160], [194, 160], [226, 128, 147], [226, 128, 148], [226, 128, 166]] ∧
    ∀ st ∈ Gomjml.Gen.Parser.entityStepsB, ∀ b ∈ st.2, b ≠ amp ∧ b ≠ lt ∧ b ≠ gt := by decide

/-- raw HTML inside mj-text is equivalent to the same content wrapped in CDATA: the wrapping round-trips every byte string,
    `]]>` included -/
theorem C18_cdata_roundtrip (inner : List B) : cdataDecode (cdataWrap' inner) = some inner := cdata_roundtrip inner

/-- blank lines / indentation before the root are ignored -/
theorem C18_strip_whitespace (p root : List B) (hp : ∀ b ∈ p, isWs b = true) (hr : startsCI mjmlNeedle root = true) :
    strip (p ++ root) = root := strip_ws p root hp hr

/-- **the whole prolog is ignored**: any sequence of white space and comments in front of the root — whatever the comments
    contain (quotes, angle brackets, the text `<mjml`, bodies beginning with `>` or `->`), as long as each ends at its own
    `-->` — is removed and the document starts at the root element -/
theorem C18_prolog_ignored (p root : List B) (hp : Prolog p) (hr : startsCI mjmlNeedle root = true) :
    strip (p ++ root) = root := strip_prolog p root hp hr

/-- non-vacuity: `<!--<mjml>-->` followed by a newline is a prolog (the shape that made the parser fail before 51f397d) -/
example : Prolog ([60, 33, 45, 45] ++ [60, 109, 106, 109, 108, 62] ++ [45, 45, 62] ++ ([10] ++ [])) :=
  .comment [60, 109, 106, 109, 108, 62] _ (closesAtEnd_of_B _ (by decide)) (.ws 10 [] (by decide) .nil)

/-- Regenerated fact: the entity pre-pass consists of `escapeAttributeAmpersands` and plain `strings.ReplaceAll` steps whose
    search strings all start with `&` and none of which is one of XML's own escapes (&lt; &gt; &quot; &apos; &amp;) — those are
    decoded exactly once, by the XML layer -/
theorem C18_xml_escapes_left_alone :
    Gomjml.Gen.Parser.entityStepsPure = true ∧
    ∀ st ∈ Gomjml.Gen.Parser.entityStepsB,
      st.1.head? = some amp ∧ st.1 ∉ [[38, 108, 116, 59], [38, 103, 116, 59], [38, 113, 117, 111, 116, 59], [38, 97, 112, 111, 115, 59], [38, 97, 109, 112, 59]] := by
  decide

/-- non-vacuity for the tree theorem: text, a child with an attribute, text -/
example : (parseDoc [.start "a" [("x", "1")], .chars "hi", .start "b" [], .stop "b", .chars "z", .stop "a"]).map Node.toks
    = some [.start "a" [("x", "1")], .chars "hi", .start "b" [], .stop "b", .chars "z", .stop "a"] := by decide

end Gomjml.Props.C18
