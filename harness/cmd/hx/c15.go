package main

import (
	"bytes"
	"fmt"
	"runtime"
	"sort"
	"strconv"
	"strings"
	"sync"
	"sync/atomic"
	"time"

	"github.com/preslavrachev/gomjml/mjml"
	"github.com/preslavrachev/gomjml/parser"
)

func goid() int {
	var buf [64]byte
	n := runtime.Stack(buf[:], false)
	f := bytes.Fields(buf[:n])
	id, _ := strconv.Atoi(string(f[1]))
	return id
}

type sfArrival struct {
	tid   int
	point string
}

type sfCtl struct {
	mu     sync.Mutex
	tidOf  map[int]int
	arrive chan sfArrival
	grant  []chan struct{}
	finish chan int
}

func (c *sfCtl) yield(point string) {
	if strings.HasPrefix(point, "cl.") {
		return
	}
	c.mu.Lock()
	tid, ok := c.tidOf[goid()]
	c.mu.Unlock()
	if !ok {
		return
	}
	c.arrive <- sfArrival{tid, point}
	<-c.grant[tid]
}

func joinInts(xs []int) string {
	if len(xs) == 0 {
		return "-"
	}
	p := make([]string, len(xs))
	for i, x := range xs {
		p[i] = strconv.Itoa(x)
	}
	return strings.Join(p, ",")
}

// askSF returns (labels per step, enabled threads) from the Lean Model.
func askSF(drv *Driver, keys []int, sched []int) ([]string, []int, error) {
	resp, err := drv.Ask("sf " + joinInts(keys) + " " + joinInts(sched))
	if err != nil {
		return nil, nil, err
	}
	parts := strings.SplitN(resp, "|", 2)
	if len(parts) != 2 {
		return nil, nil, fmt.Errorf("driver said %q", resp)
	}
	labels := strings.Fields(parts[0])
	var en []int
	for _, f := range strings.Fields(parts[1]) {
		v, _ := strconv.Atoi(f)
		en = append(en, v)
	}
	return labels, en, nil
}

// replaySchedule drives the real singleflightDo along a schedule chosen step by step from the Model's enabled set and
// requires every goroutine to arrive at exactly the label the Model predicts.  Returns (trace, problem, isSpecViolation).
func replaySchedule(drv *Driver, r *Rng, n, nkeys int) (string, string, string) {
	c := &sfCtl{tidOf: map[int]int{}, arrive: make(chan sfArrival, n), finish: make(chan int, n)}
	c.grant = make([]chan struct{}, n)
	f := c.yield
	mjml.VerifYield.Store(&f)
	defer mjml.VerifYield.Store(nil)
	keys := make([]int, n)
	nodes := make([]*parser.MJMLNode, n)
	results := make([]*parser.MJMLNode, n)
	for t := 0; t < n; t++ {
		c.grant[t] = make(chan struct{})
		keys[t] = r.Intn(nkeys)
		nodes[t] = &parser.MJMLNode{Text: fmt.Sprint("node-of-", t)}
	}
	fails := make([]bool, n)
	errs := make([]error, n)
	rerrs := make([]error, n)
	for t := 0; t < n; t++ {
		fails[t] = r.Bool(1, 3)
		errs[t] = fmt.Errorf("parse error of thread %d", t)
	}
	var omu sync.Mutex
	inside := map[int]int{}
	overlap := false
	ready := make(chan struct{}, n)
	for t := 0; t < n; t++ {
		go func(t int) {
			c.mu.Lock()
			c.tidOf[goid()] = t
			c.mu.Unlock()
			ready <- struct{}{}
			res, rerr := mjml.VerifSingleflightDo(uint64(1000+keys[t]), func() (*mjml.MJMLNode, error) {
				omu.Lock()
				inside[keys[t]]++
				if inside[keys[t]] > 1 {
					overlap = true
				}
				omu.Unlock()
				c.yield("parsing")
				omu.Lock()
				inside[keys[t]]--
				omu.Unlock()
				if fails[t] {
					return nil, errs[t] // a parse error: the leader's error must reach every waiter
				}
				return nodes[t], nil
			})
			results[t] = res
			rerrs[t] = rerr
			c.finish <- t
		}(t)
	}
	for t := 0; t < n; t++ {
		<-ready
	}
	abort := func() {
		// let every parked goroutine run to completion so that nothing leaks into the next schedule
		go func() {
			for {
				select {
				case <-c.arrive:
				case <-c.finish:
				case <-time.After(300 * time.Millisecond):
					return
				}
			}
		}()
		for t := 0; t < n; t++ {
			go func(t int) {
				for i := 0; i < 12; i++ {
					select {
					case c.grant[t] <- struct{}{}:
					case <-time.After(20 * time.Millisecond):
					}
				}
			}(t)
		}
		time.Sleep(350 * time.Millisecond)
	}
	for i := 0; i < n; i++ {
		select {
		case a := <-c.arrive:
			if a.point != "start" {
				abort()
				return "", fmt.Sprintf("thread %d first arrives at %s, model start", a.tid, a.point), ""
			}
		case <-time.After(2 * time.Second):
			abort()
			return "", "a goroutine never reached its first yield point", ""
		}
	}
	var sched []int
	trace := ""
	finished := 0
	for steps := 0; steps < 200; steps++ {
		_, en, err := askSF(drv, keys, sched)
		if err != nil {
			abort()
			return trace, "driver: " + err.Error(), ""
		}
		if len(en) == 0 {
			if finished < n {
				abort()
				return trace, "model has no enabled thread but not all returned", ""
			}
			break
		}
		t := en[r.Intn(len(en))]
		sched = append(sched, t)
		labels, _, err := askSF(drv, keys, sched)
		if err != nil || len(labels) != len(sched) {
			abort()
			return trace, "driver: bad labels", ""
		}
		want := labels[len(labels)-1]
		trace += fmt.Sprintf("%d:%s ", t, want)
		wantPoint := strings.SplitN(want, ":", 2)[0]
		c.grant[t] <- struct{}{}
		select {
		case a := <-c.arrive:
			if a.tid != t || a.point != wantPoint {
				abort()
				return trace, fmt.Sprintf("granted thread %d, model predicts %s, implementation is thread %d at %s", t, want, a.tid, a.point), ""
			}
		case ft := <-c.finish:
			finished++
			if ft != t || wantPoint != "ret" {
				abort()
				return trace, fmt.Sprintf("thread %d returned, model predicts thread %d at %s", ft, t, want), ""
			}
			// hand-over: the Model says whose parse result is returned
			f := strings.Split(want, ":")
			leader, _ := strconv.Atoi(f[1])
			if fails[leader] {
				if results[t] != nil || rerrs[t] != errs[leader] {
					return trace, fmt.Sprintf("thread %d returned (%v, %v), the goroutine that did the work (thread %d) failed with %q: every caller must receive that error", t, results[t], rerrs[t], leader, errs[leader]), "handover-wrong-result"
				}
			} else if results[t] != nodes[leader] || rerrs[t] != nil {
				got := "nil"
				if results[t] != nil {
					got = results[t].Text
				}
				return trace, fmt.Sprintf("thread %d returned (%s, %v), model: result of leader %d", t, got, rerrs[t], leader), "handover-wrong-result"
			}
		case <-time.After(2 * time.Second):
			abort()
			return trace, fmt.Sprintf("granted thread %d expecting %s: no arrival within 2 s (blocked)", t, want), "blocked-forever"
		}
	}
	if overlap {
		return trace, "two parses of one key overlapped", "overlapping-parses"
	}
	if mjml.VerifSingleflightInFlight() != 0 {
		return trace, "in-flight map not empty after all callers returned", "inflight-leak"
	}
	return trace, "", ""
}

// freeRun: unguided search.  Goroutines run freely; yields inject seeded random delays.  Oracle = the Spec on the real
// execution: no overlapping parses per key, every caller gets a complete result of its own key, everybody returns.
func freeRun(r *Rng, n, nkeys int) (string, string) {
	delays := make([]uint64, 64)
	for i := range delays {
		delays[i] = r.U64()
	}
	var ctr atomic.Uint64
	f := func(p string) {
		if strings.HasPrefix(p, "cl.") {
			return
		}
		d := delays[ctr.Add(1)%64] % 4
		switch d {
		case 0:
		case 1:
			runtime.Gosched()
		default:
			time.Sleep(time.Duration(d*20) * time.Microsecond)
		}
	}
	mjml.VerifYield.Store(&f)
	defer mjml.VerifYield.Store(nil)
	keys := make([]int, n)
	nodes := make([]*parser.MJMLNode, n)
	results := make([]*parser.MJMLNode, n)
	ran := make([]atomic.Bool, n)
	var inside [8]atomic.Int32
	var overlap atomic.Bool
	for t := 0; t < n; t++ {
		keys[t] = r.Intn(nkeys)
		nodes[t] = &parser.MJMLNode{Text: fmt.Sprint("node-of-", t)}
	}
	var wg sync.WaitGroup
	for t := 0; t < n; t++ {
		wg.Add(1)
		go func(t int) {
			defer wg.Done()
			res, _ := mjml.VerifSingleflightDo(uint64(2000+keys[t]), func() (*mjml.MJMLNode, error) {
				if inside[keys[t]].Add(1) > 1 {
					overlap.Store(true)
				}
				ran[t].Store(true)
				time.Sleep(time.Duration(delays[t%64]%200) * time.Microsecond)
				inside[keys[t]].Add(-1)
				return nodes[t], nil
			})
			results[t] = res
		}(t)
	}
	done := make(chan struct{})
	go func() { wg.Wait(); close(done) }()
	select {
	case <-done:
	case <-time.After(5 * time.Second):
		return "blocked-forever", "not every caller returned within 5 s"
	}
	if overlap.Load() {
		return "overlapping-parses", "two parses of one key overlapped"
	}
	for t := 0; t < n; t++ {
		ok := false
		for u := 0; u < n; u++ {
			if keys[u] == keys[t] && ran[u].Load() && results[t] == nodes[u] {
				ok = true
			}
		}
		if !ok {
			return "handover-wrong-result", fmt.Sprintf("caller %d got %v", t, results[t])
		}
	}
	return "", ""
}

// freeWalk: unguided but CONTROLLED search — the failing-input search when the Model no longer matches the code.  Goroutines are
// parked at every yield point (one runs at a time, chosen at random; new callers arrive at random moments; a third of the parse
// functions fail).  Oracle = the Spec on the real execution: no two parses of one key at the same time, every caller returns,
// every caller gets the result (or the error) of a parse of its own key that ran.
func freeWalk(r *Rng, n, nkeys int) (string, string, string) {
	c := &sfCtl{tidOf: map[int]int{}, arrive: make(chan sfArrival, 4*n), finish: make(chan int, n)}
	c.grant = make([]chan struct{}, n)
	f := c.yield
	mjml.VerifYield.Store(&f)
	defer mjml.VerifYield.Store(nil)
	keys := make([]int, n)
	fails := make([]bool, n)
	nodes := make([]*parser.MJMLNode, n)
	results := make([]*parser.MJMLNode, n)
	rerrs := make([]error, n)
	errs := make([]error, n)
	ran := make([]bool, n)
	for t := 0; t < n; t++ {
		c.grant[t] = make(chan struct{}, 1)
		keys[t] = r.Intn(nkeys)
		fails[t] = r.Bool(1, 2)
		nodes[t] = &parser.MJMLNode{Text: fmt.Sprint("node-of-", t)}
		errs[t] = fmt.Errorf("parse error of caller %d", t)
	}
	var omu sync.Mutex
	inside := map[int]int{}
	overlapAt := ""
	launch := func(t int) {
		ready := make(chan struct{})
		go func() {
			c.mu.Lock()
			c.tidOf[goid()] = t
			c.mu.Unlock()
			close(ready)
			res, rerr := mjml.VerifSingleflightDo(uint64(3000+keys[t]), func() (*mjml.MJMLNode, error) {
				omu.Lock()
				inside[keys[t]]++
				ran[t] = true
				if inside[keys[t]] > 1 && overlapAt == "" {
					overlapAt = fmt.Sprintf("caller %d starts to parse key %d while another parse of it is running", t, keys[t])
				}
				omu.Unlock()
				c.yield("parsing")
				omu.Lock()
				inside[keys[t]]--
				omu.Unlock()
				if fails[t] {
					return nil, errs[t]
				}
				return nodes[t], nil
			})
			results[t], rerrs[t] = res, rerr
			c.finish <- t
		}()
		<-ready
	}
	parked := map[int]string{}
	started, finished := 0, 0
	trace := ""
	wait := func(d time.Duration) {
		deadline := time.After(d)
		for {
			select {
			case a := <-c.arrive:
				parked[a.tid] = a.point
				return
			case <-c.finish:
				finished++
				return
			case <-deadline:
				return
			}
		}
	}
	for steps := 0; steps < 40*n && finished < n; steps++ {
		// everything that has arrived meanwhile
		for drained := false; !drained; {
			select {
			case a := <-c.arrive:
				parked[a.tid] = a.point
			case <-c.finish:
				finished++
			default:
				drained = true
			}
		}
		var cands []int
		for t := range parked {
			cands = append(cands, t)
		}
		sort.Ints(cands)
		if started < n {
			cands = append(cands, -1) // a new caller arrives
		}
		if len(cands) == 0 {
			wait(20 * time.Millisecond) // everybody is blocked inside the implementation or on the way to a yield point
			if len(parked) == 0 && finished < started {
				wait(200 * time.Millisecond)
				if len(parked) == 0 && finished < started {
					break
				}
			}
			continue
		}
		t := cands[r.Intn(len(cands))]
		if t == -1 {
			t = started
			started++
			trace += fmt.Sprintf("+%d ", t)
			launch(t)
		} else {
			trace += fmt.Sprintf("%d@%s ", t, parked[t])
			delete(parked, t)
			c.grant[t] <- struct{}{}
		}
		wait(3 * time.Millisecond)
	}
	// let everything run out
	go func() {
		for {
			select {
			case a := <-c.arrive:
				select {
				case c.grant[a.tid] <- struct{}{}:
				default:
				}
			case <-time.After(300 * time.Millisecond):
				return
			}
		}
	}()
	for t := range parked {
		select {
		case c.grant[t] <- struct{}{}:
		default:
		}
	}
	deadline := time.After(3 * time.Second)
	for finished < started {
		select {
		case <-c.finish:
			finished++
		case <-deadline:
			return trace, "blocked-forever", fmt.Sprintf("%d of %d callers never returned", started-finished, started)
		}
	}
	omu.Lock()
	ov := overlapAt
	omu.Unlock()
	if ov != "" {
		return trace, "overlapping-parses", ov
	}
	for t := 0; t < started; t++ {
		ok := false
		for u := 0; u < started; u++ {
			if keys[u] == keys[t] && ran[u] && ((results[t] == nodes[u] && rerrs[t] == nil && !fails[u]) || (results[t] == nil && rerrs[t] == errs[u] && fails[u])) {
				ok = true
			}
		}
		if !ok {
			return trace, "handover-wrong-result", fmt.Sprintf("caller %d (key %d) got %v / %v: not the outcome of any parse of its key", t, keys[t], results[t], rerrs[t])
		}
	}
	return trace, "", ""
}

// fullPathStress: concurrent Render(WithCache) of equal and different templates, with expiry shifts, stop/restart, under the
// race detector when built with -race; every result must equal the solo result; cleanup goroutines must not leak.
func fullPathStress(res *Result, r *Rng, rounds int) {
	var spawned, exited atomic.Int64
	f := func(p string) {
		switch p {
		case "cl.spawn":
			spawned.Add(1)
		case "cl.exit":
			exited.Add(1)
		default:
			if r := ctrRand.Add(1); r%3 == 0 {
				runtime.Gosched()
			}
		}
	}
	mjml.VerifYield.Store(&f)
	defer mjml.VerifYield.Store(nil)
	// all documents have the same (empty) head: isolation of differing heads is C07's business (globals.instance)
	docs := []string{cacheDocs[0], cacheDocs[1], cacheDocs[3], cacheDocs[2]}
	type exp struct{ html, err string }
	solo := make([]exp, len(docs))
	for i, d := range docs {
		h, err := mjml.Render(d)
		e := ""
		if err != nil {
			e = err.Error()
		}
		solo[i] = exp{h, e}
	}
	g0 := runtime.NumGoroutine()
	for round := 0; round < rounds; round++ {
		n := 2 + r.Intn(15)
		var wg sync.WaitGroup
		var bad atomic.Value
		for t := 0; t < n; t++ {
			di := r.Intn(len(docs))
			act := r.Intn(12)
			wg.Add(1)
			go func(di, act int) {
				defer wg.Done()
				switch act {
				case 0:
					mjml.StopASTCacheCleanup()
					return
				case 1:
					mjml.VerifShiftExpiries(10 * time.Minute)
					return
				}
				var h string
				var err error
				if p := safely(func() { h, err = mjml.Render(docs[di], mjml.WithCache()) }); p != nil {
					bad.Store(fmt.Sprintf("doc %d: concurrent cached compilation PANICKED: %v", di, p))
					return
				}
				e := ""
				if err != nil {
					e = err.Error()
				}
				if h != solo[di].html || e != solo[di].err {
					bad.Store(fmt.Sprintf("doc %d: concurrent cached result differs from solo result (err %q, solo %q)", di, e, solo[di].err))
				}
			}(di, act)
		}
		wg.Wait()
		res.Case(fmt.Sprintf("stress-round-%d-%d", round, n), true)
		if b := bad.Load(); b != nil {
			res.Violate(Violation{Sig: "cached-concurrent-result-differs", Kind: "schedule", What: fmt.Sprint(b), Input: map[string]interface{}{"round": round}})
			return
		}
		live := spawned.Load() - exited.Load()
		if live > 2 {
			res.Violate(Violation{Sig: "cleaner-goroutines-accumulate", Kind: "schedule", What: fmt.Sprintf("%d cleanup goroutines alive at a quiescent point", live),
				Input: map[string]interface{}{"round": round}})
			return
		}
	}
	// stop storm: several goroutines stop the cleaner over and over while others keep using the cache (overlapping stops with a
	// restart between them); at the quiescent point behind it, after one more cached compilation, exactly one cleaner is alive
	storms := 2 + rounds/40
	if storms > 12 {
		storms = 12
	}
	for storm := 0; storm < storms; storm++ {
		until := time.Now().Add(60 * time.Millisecond)
		var wg sync.WaitGroup
		for g := 0; g < 4; g++ {
			wg.Add(1)
			go func(g int) {
				defer wg.Done()
				for time.Now().Before(until) {
					if g < 2 {
						mjml.StopASTCacheCleanup()
					} else {
						mjml.Render(docs[g-2], mjml.WithCache())
					}
				}
			}(g)
		}
		wg.Wait()
		mjml.Render(docs[0], mjml.WithCache())
		limit := time.Now().Add(2 * time.Second)
		// (a cleaner counts from the moment its goroutine runs, and a stopped one until it has returned: both take a moment)
		for spawned.Load()-exited.Load() != 1 && time.Now().Before(limit) {
			time.Sleep(time.Millisecond)
		}
		res.Case(fmt.Sprintf("stop-storm-%d", storm), true)
		if live := spawned.Load() - exited.Load(); live != 1 {
			res.Violate(Violation{Sig: "cleaners-alive-after-stop-storm", Kind: "schedule", What: fmt.Sprintf("two goroutines stopping the cleaner while two use the cache; behind it, after one more cached compilation, %d cleanup goroutines are alive (want exactly 1)", live),
				Input: map[string]interface{}{"storm": storm}})
			break
		}
	}
	mjml.StopASTCacheCleanup()
	deadline := time.Now().Add(2 * time.Second)
	for exited.Load() < spawned.Load() && time.Now().Before(deadline) {
		time.Sleep(time.Millisecond)
	}
	if exited.Load() != spawned.Load() {
		res.Violate(Violation{Sig: "cleaner-goroutine-leak", Kind: "schedule", What: fmt.Sprintf("after StopASTCacheCleanup %d of %d cleanup goroutines never exited", spawned.Load()-exited.Load(), spawned.Load())})
	}
	// restart: exactly one
	s0 := spawned.Load()
	mjml.Render(docs[0], mjml.WithCache())
	mjml.Render(docs[1], mjml.WithCache())
	time.Sleep(5 * time.Millisecond)
	if spawned.Load()-s0 != 1 {
		res.Violate(Violation{Sig: "cleaner-start-count", Kind: "schedule", What: fmt.Sprintf("using the cache after a stop started %d cleanup goroutines, want 1", spawned.Load()-s0)})
	}
	mjml.StopASTCacheCleanup()
	time.Sleep(20 * time.Millisecond)
	if g := runtime.NumGoroutine(); g > g0+1 {
		res.Violate(Violation{Sig: "goroutine-leak", Kind: "schedule", What: fmt.Sprintf("%d goroutines before, %d after a quiescent stop", g0, g)})
	}
	res.Note("stress: %d rounds, cleanup goroutines spawned=%d exited=%d", rounds, spawned.Load(), exited.Load())
}

var ctrRand atomic.Uint64

// runC15 runs the scenarios under a watchdog: "nobody stays blocked" is part of the property, and a compilation that never
// returns must end the run with a violation instead of holding it until the orchestrator's timeout.  No scenario is silent
// for more than a few seconds on the unchanged tree; 75 s without a new case means goroutines are blocked.
func runC15(res *Result, tier string, seed int64, replay string) {
	done := make(chan struct{})
	go func() {
		defer close(done)
		runC15Scenarios(res, tier, seed, replay)
	}()
	last, lastAt := -1, time.Now()
	for {
		select {
		case <-done:
			return
		case <-time.After(time.Second):
		}
		res.mu.Lock()
		ev := res.Evaluations
		res.mu.Unlock()
		if ev != last {
			last, lastAt = ev, time.Now()
			continue
		}
		if time.Since(lastAt) > 75*time.Second {
			buf := make([]byte, 1<<16)
			buf = buf[:runtime.Stack(buf, true)]
			where := "?"
			for _, fn := range []string{"fullPathStress", "ccReplays", "replaySchedule", "freeRun", "freeWalk", "runC15Park", "compareCache"} {
				if strings.Contains(string(buf), fn) {
					where = fn
					break
				}
			}
			res.Violate(Violation{Sig: "blocked|" + where, Kind: "schedule", What: fmt.Sprintf("no scenario made progress for 75 s (in %s, after %d cases): compilations or stops that never return; goroutines waiting on sfMutex / a WaitGroup / the cleanup mutex: %d / %d / %d",
				where, ev, strings.Count(string(buf), "singleflightDo"), strings.Count(string(buf), "WaitGroup"), strings.Count(string(buf), "StopASTCacheCleanup")),
				Input: map[string]interface{}{"seed": seed, "tier": tier, "cases-before-the-block": ev}})
			return
		}
	}
}

func runC15Scenarios(res *Result, tier string, seed int64, replay string) {
	res.Rule = "(1b) model-guided replay of whole cached compilations: 2–5 goroutines compile three documents (one unparsable) through Render(WithCache), parked at the yield points of parseAST and singleflightDo; the Lean concurrent cache Model (driver `cc`) chooses each next step — a thread step, an eviction, the passing of time — and after every step the goroutine must stand where the Model's thread stands; every compilation must return the uncached result and the cache must hold exactly the Model's entries; (1) model-guided replay: 2–6 goroutines on 1–2 keys call the real singleflightDo, parked at verif yield points; at every step the Lean Model (driver `sf`) gives the enabled set, one enabled goroutine is granted one atomic step and must arrive at the label the Model predicts (start/locked/waiting/lead/parsing/assigned/signalled/deleting/ret) and return the leader's node; (2) unguided search: free-running goroutines with seeded delays at the yield points, oracle = no overlapping parse per key, complete result of own key, all return; (3) full-path stress of Render(WithCache) with expiry shifts and stop/restart, solo-result comparison, cleanup-goroutine accounting; (2b) a parse function that panics, with 0–3 waiters: nobody stays blocked, the call does not stay registered, the next caller parses again; (3b) the cleanup goroutine held at a yield point (just started / a sweep just finished) while the main goroutine stops it, uses the cache, stops again: fixed and seeded scripts, each in a fresh process with a 1 ms interval; after the release exactly the goroutines the last call asks for are alive and registered; (4) life of the cleanup goroutine: histories with stops, restarts and configuration calls made while a cleaner runs, and sweeps that really run (1 ms interval, a tick awaited after every step: over an empty cache, over expired entries only, around stops), each in a fresh process and on the Lean cache Model (goroutines started / exited / registered, at most one alive); run under the race detector. Non-trivial = schedule with ≥2 goroutines on one key; distinct by label trace"
	drv, err := startDriver()
	if err != nil {
		res.Disagree(Violation{Sig: "driver-missing", Kind: "schedule", What: err.Error()})
		return
	}
	defer drv.Close()
	nSched, nFree, rounds := 400, 400, 60
	if tier == "thorough" {
		nSched, nFree, rounds = 6000, 6000, 1500
	}
	for i := 0; i < nSched; i++ {
		r := NewRng(seed, fmt.Sprintf("c15/sched/%d", i))
		n := 2 + i%5
		nk := 1 + i%2
		trace, problem, spec := replaySchedule(drv, r, n, nk)
		res.Case(trace, strings.Contains(trace, "waiting"))
		res.mu.Lock()
		res.Programs++
		res.DisagreementsChecked += len(strings.Fields(trace))
		res.mu.Unlock()
		if i%100 == 0 {
			res.Sample(map[string]interface{}{"goroutines": n, "keys": nk, "trace": trace})
		}
		if problem != "" {
			in := map[string]interface{}{"seed": seed, "index": i, "goroutines": n, "keys": nk, "trace": trace}
			if spec != "" {
				res.Violate(Violation{Sig: spec, Kind: "schedule", What: problem, Input: in})
			} else {
				res.Disagree(Violation{Sig: "sf-label-mismatch", Kind: "schedule", What: problem, Input: in})
			}
			break
		}
	}
	for i := 0; i < nFree; i++ {
		r := NewRng(seed, fmt.Sprintf("c15/free/%d", i))
		sig, what := freeRun(r, 2+i%7, 1+i%3)
		res.Case(fmt.Sprintf("free/%d", i), true)
		if sig != "" {
			res.Violate(Violation{Sig: sig, Kind: "schedule", What: what + " (unguided run)", Input: map[string]interface{}{"seed": seed, "index": i}})
			break
		}
	}
	// (1c) controlled unguided walks over the yield points (no Model): the search for a failing schedule
	nWalk := nFree + nFree/4
	for i := 0; i < nWalk; i++ {
		r := NewRng(seed, fmt.Sprintf("c15/walk/%d", i))
		trace, sig, what := freeWalk(r, 3+i%3, 1+(i%4)/3)
		res.Case("walk|"+trace, strings.Contains(trace, "@waiting") || strings.Contains(trace, "@parsing"))
		res.Count("controlled-walks")
		if sig != "" {
			res.Violate(Violation{Sig: sig, Kind: "schedule", What: what + " (controlled walk)", Input: map[string]interface{}{"seed": seed, "index": i, "trace": trace}})
			break
		}
	}
	// (1b) the whole cached compilation path (Load, expiry test, Delete, single-flight, parse, Store, hand-over) against the
	// concurrent cache Model, schedule by schedule
	ccReplays(res, seed, nSched/2, "C15")
	fullPathStress(res, NewRng(seed, "c15/stress"), rounds)
	// (2b) a parse that panics: the goroutine that did the work gets the panic, nobody stays blocked, the call does not stay
	// registered, and the next caller for the same template parses again
	if replay == "" {
		for round := 0; round < 20; round++ {
			key := uint64(900000 + round)
			node := &mjml.MJMLNode{}
			waiters := round % 4
			var wg sync.WaitGroup
			entered := make(chan struct{})
			release := make(chan struct{})
			var leaderPanicked atomic.Bool
			wg.Add(1)
			go func() {
				defer wg.Done()
				defer func() {
					if recover() != nil {
						leaderPanicked.Store(true)
					}
				}()
				mjml.VerifSingleflightDo(key, func() (*mjml.MJMLNode, error) {
					close(entered)
					<-release
					panic("parse failed hard")
				})
			}()
			<-entered
			var stuck atomic.Int64
			for w := 0; w < waiters; w++ {
				wg.Add(1)
				stuck.Add(1)
				go func() {
					defer wg.Done()
					defer stuck.Add(-1)
					defer func() { recover() }()
					mjml.VerifSingleflightDo(key, func() (*mjml.MJMLNode, error) { return node, nil })
				}()
			}
			time.Sleep(2 * time.Millisecond)
			close(release)
			done := make(chan struct{})
			go func() { wg.Wait(); close(done) }()
			res.Case(fmt.Sprintf("panicking-parse|%d", round), true)
			res.Count("panicking-parse")
			in := map[string]interface{}{"scenario": "the parse function of the goroutine that does the work panics", "waiters": waiters}
			select {
			case <-done:
			case <-time.After(3 * time.Second):
				res.Violate(Violation{Sig: "panicking-parse|blocked", Kind: "schedule", What: fmt.Sprintf("%d goroutine(s) still blocked 3 s after the parse panicked", stuck.Load()), Input: in})
				continue
			}
			if !leaderPanicked.Load() {
				res.Count("panicking-parse=panic-not-propagated")
			}
			if n := mjml.VerifSingleflightInFlight(); n != 0 {
				res.Violate(Violation{Sig: "panicking-parse|call-stays-registered", Kind: "schedule", What: fmt.Sprintf("%d call(s) still registered after the parse panicked and everybody returned", n), Input: in})
				continue
			}
			called := false
			got, err := mjml.VerifSingleflightDo(key, func() (*mjml.MJMLNode, error) { called = true; return node, nil })
			if !called || got != node || err != nil {
				res.Violate(Violation{Sig: "panicking-parse|next-caller-does-not-parse", Kind: "schedule", What: fmt.Sprintf("after a panicking parse the next caller for the same template did not parse again (parsed: %v, error: %v)", called, err), Input: in})
			}
		}
	}
	// (3b) the cleanup goroutine held at its yield points (just started; a sweep just done) while it is stopped and started
	if replay == "" {
		np := 12
		if tier == "thorough" {
			np = 300
		}
		runCleanerParked(res, NewRng(seed, "c15/parked"), np)
	}
	// (4) the cleanup goroutine's life against the Lean cache Model, each history in a fresh process
	if pool, perr := startDriverPool(4); perr == nil {
		lh := lifecycleHistories()
		// … and with sweeps that actually run (1 ms interval, a tick awaited after every step): over an empty cache, over
		// expired entries only, before and after stops — the cleaner stays the one registered goroutine throughout
		fastPrefix := []string{fmt.Sprintf("I%d", nsMs), fmt.Sprintf("T%d", nsHour)}
		ffull := fmt.Sprintf("a%d", nsHour)
		for _, ops := range [][]string{
			{"rc0", "t", ffull, "t", "t", "rc0", "t", "s", "rc1", "t", "s"},
			{"rc2", "t", "t", "rc0", "t", "s", "rc0", "t"},
			{"rc0", "t", "s", "rc1", "t", ffull, "t", "rc0", "t", "rc1", "s", "s", "rc0", "t"},
			{"rc0", "t", ffull, "t", "s", "rc1", "t", ffull, "t", "rc1", "t", "s"},
			{"rc2", "t", "s", "rc2", "t", "t", "s", "rc0", "t", ffull, "t", "t", "rc0", "s"},
		} {
			lh = append(lh, cacheHist{prefix: fastPrefix, ops: ops, fast: true})
		}
		parallel(4, len(lh), func(i int) { compareCache(pool, lh[i], res, "C15", false) })
		pool.Close()
	}
	for _, rr := range raceReports() {
		res.Count("race-reports")
		if rr.globals {
			// the process-wide attribute store: C07's recorded finding, not part of the cache machinery
			res.Note("race through globals.instance (C07-F1) ×%d: %s", rr.n, rr.pair)
			continue
		}
		res.Violate(Violation{Sig: "data-race|" + rr.pair, Kind: "schedule", What: fmt.Sprintf("race detector: %s (×%d)", rr.pair, rr.n)})
	}
}

func init() { register("C15", runC15) }
