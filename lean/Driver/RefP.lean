import Gomjml.Core.Lexer
import Gomjml.Core.Canon
import Gomjml.Core.Merge
import Driver.HtmlP
/-! driver sub-protocols for C01 (reference parity):
    `refcmp <hexA> <hexB>`                          canonical comparison of two whole documents
    `refsplit <hexRef>`                             top-level blocks of a reference body: count, kinds, round-trip flag
    `refcompose <hexReal> <hexRef₁> <i₁> …`         body of the real output vs merge of the named reference blocks
  Canonical form = `Canon.sortAttrs` on attributes, `Canon.normDecls` on style declarations, whitespace collapsed in text,
  whitespace-only text dropped.  `merge` is `Merge.merge` (the function the lifting theorem is about) run on the real tokens. -/
open Gomjml Gomjml.Lexer Gomjml.Canon
open Driver.HtmlP (unhex parseAttrs)

namespace Driver.RefP

instance : Inhabited HTok := ⟨HTok.doctype⟩

inductive CTok
  | o (n : String) (a : List Attr)
  | v (n : String) (a : List Attr)
  | c (n : String)
  | t (s : String)
  | co (cond : String)
  | cc
  | nco (cond : String)
  | ncc
  | cm (s : String)
  | dt
deriving BEq, Repr

def isWs (ch : Char) : Bool := ch == ' ' || ch == '\n' || ch == '\t' || ch == '\r'

/-- collapse whitespace runs to one space and trim -/
def wsCollapse (s : String) : String := Id.run do
  let mut out : Array Char := #[]
  let mut pend := false
  for ch in s.toList do
    if isWs ch then
      pend := true
    else
      if pend && out.size > 0 then out := out.push ' '
      pend := false
      out := out.push ch
  return String.mk out.toList

def trimS (s : String) : String := wsCollapse s

/-- character references a browser resolves in text: numeric ones, and the named ones that occur in e-mail copy -/
def namedRefs : List (String × Nat) :=
  [("amp", 38), ("lt", 60), ("gt", 62), ("quot", 34), ("apos", 39), ("nbsp", 160), ("copy", 169), ("reg", 174), ("trade", 8482),
   ("hellip", 8230), ("mdash", 8212), ("ndash", 8211), ("laquo", 171), ("raquo", 187), ("euro", 8364), ("pound", 163),
   ("lsquo", 8216), ("rsquo", 8217), ("ldquo", 8220), ("rdquo", 8221), ("bull", 8226), ("middot", 183), ("deg", 176),
   ("times", 215), ("eacute", 233), ("egrave", 232), ("agrave", 224), ("ccedil", 231)]

def hexDigit (ch : Char) : Option Nat :=
  if ch.isDigit then some (ch.toNat - 48)
  else if 'a' ≤ ch && ch ≤ 'f' then some (ch.toNat - 87)
  else if 'A' ≤ ch && ch ≤ 'F' then some (ch.toNat - 55)
  else none

def refValue (body : List Char) : Option Nat :=
  match body with
  | '#' :: 'x' :: ds | '#' :: 'X' :: ds =>
    if ds.isEmpty then none else ds.foldl (fun acc d => match acc, hexDigit d with | some a, some v => some (a * 16 + v) | _, _ => none) (some 0)
  | '#' :: ds =>
    if ds.isEmpty || !ds.all Char.isDigit then none else some (ds.foldl (fun a d => a * 10 + (d.toNat - 48)) 0)
  | _ => (namedRefs.find? (fun p => p.1.toList == body)).map (·.2)

/-- decode `&name;` / `&#n;` / `&#xh;` (anything else stays as written) -/
def decodeRefs (s : String) : String := Id.run do
  let cs := s.toList.toArray
  let mut out : Array Char := #[]
  let mut i := 0
  while i < cs.size do
    if cs[i]! == '&' then
      let mut j := i + 1
      while j < cs.size && j < i + 12 && cs[j]! != ';' && cs[j]! != '&' && !isWs cs[j]! do j := j + 1
      if j < cs.size && cs[j]! == ';' then
        match refValue (cs.extract (i + 1) j).toList with
        | some v => out := out.push (Char.ofNat v); i := j + 1; continue
        | none => pure ()
    out := out.push cs[i]!
    i := i + 1
  return String.mk out.toList

def parseDecls (s : String) : List Attr :=
  (s.splitOn ";").filterMap fun d =>
    let d := trimS d
    if d == "" then none
    else match d.splitOn ":" with
      | [] => none
      | k :: rest => some ((trimS k).toLower, trimS (":".intercalate rest))

def showDecls (ds : List Attr) : String := ";".intercalate (ds.map fun d => d.1 ++ ":" ++ d.2)

def canonAttrs (a : String) : List Attr :=
  sortAttrs ((parseAttrs a).map fun kv =>
    if kv.1 == "style" then (kv.1, showDecls (normDecls (parseDecls kv.2)))
    else if kv.1 == "class" then (kv.1, wsCollapse kv.2)
    else kv)

def canonTok : HTok → Option CTok
  | .open_ n a => some (.o n (canonAttrs a))
  | .void n a => some (.v n (canonAttrs a))
  | .close n => some (.c n)
  | .text s => let w := wsCollapse (decodeRefs s); if w == "" then none else some (.t w)
  | .msoOpen cnd => some (.co (wsCollapse cnd))
  | .msoClose => some .cc
  | .notMsoOpen cnd => some (.nco (wsCollapse cnd))
  | .notMsoClose => some .ncc
  | .comment s => some (.cm (wsCollapse s))
  | .doctype => some .dt

/-- CSS text: whitespace is insignificant around `{ } ; , > + ~ ( ) !` and after `:`; a `;` before `}` is optional -/
def cssCanon (s : String) : String := Id.run do
  let cs := (wsCollapse s).toList.toArray
  let punct := fun (ch : Char) => ch == '{' || ch == '}' || ch == ';' || ch == ',' || ch == '>' || ch == '+' || ch == '~' || ch == '(' || ch == ')' || ch == '!'
  let mut out : Array Char := #[]
  for i in [0:cs.size] do
    let ch := cs[i]!
    if ch == ' ' then
      let prev := if out.size > 0 then out[out.size - 1]! else ' '
      let next := if i + 1 < cs.size then cs[i + 1]! else ' '
      if punct prev || prev == ':' || (punct next && next != '(') || prev == ' ' then continue
      out := out.push ch
    else if ch == '}' && out.size > 0 && out[out.size - 1]! == ';' then
      out := (out.pop).push ch
    else
      out := out.push ch
  return String.mk out.toList

/-- canonical tokens; text directly inside `<style>` is CSS -/
def canon (ts : List HTok) : List CTok :=
  let rec go : List HTok → Bool → List CTok
    | [], _ => []
    | t :: r, inStyle =>
      match t with
      | .text s =>
        if inStyle then
          let w := cssCanon s
          if w == "" then go r inStyle else .t w :: go r inStyle
        else
          match canonTok t with
          | some x => x :: go r inStyle
          | none => go r inStyle
      | .open_ n _ =>
        match canonTok t with
        | some x => x :: go r (n == "style")
        | none => go r (n == "style")
      | _ =>
        match canonTok t with
        | some x => x :: go r false
        | none => go r false
  go ts false

def showAttrs (a : List Attr) : String := " ".intercalate (a.map fun kv => kv.1 ++ "=\"" ++ kv.2 ++ "\"")
def showTok : CTok → String
  | .o n a => s!"<{n} {showAttrs a}>"
  | .v n a => s!"<{n} {showAttrs a}/>"
  | .c n => s!"</{n}>"
  | .t s => s!"text[{s}]"
  | .co cnd => s!"<!--[if {cnd}]>"
  | .cc => "<![endif]-->"
  | .nco cnd => s!"<!--[if {cnd}]><!-->"
  | .ncc => "<!--<![endif]-->"
  | .cm s => s!"<!--{s}-->"
  | .dt => "<!doctype>"

/-! ### generated identifiers: 16 hex digits, α-renamed in order of first appearance -/

def isHexLower (ch : Char) : Bool := ch.isDigit || ('a' ≤ ch && ch ≤ 'f')
def isWordCh (ch : Char) : Bool := ch.isAlphanum

def idName (n : Nat) : String :=
  let d := toString n
  "ID" ++ String.mk (List.replicate (14 - d.length) '0') ++ d

/-- rename every maximal alphanumeric run that is exactly 16 lower-case hex digits -/
def alphaStr (m : List (String × String)) (s : String) : String × List (String × String) := Id.run do
  let cs := s.toList.toArray
  let mut out : Array Char := #[]
  let mut mp := m
  let mut i := 0
  while i < cs.size do
    if isWordCh cs[i]! then
      let mut j := i
      while j < cs.size && isWordCh cs[j]! do j := j + 1
      let run := (cs.extract i j).toList
      if run.length == 16 && run.all isHexLower then
        let key := String.mk run
        match mp.find? (fun p => p.1 == key) with
        | some p => out := out ++ p.2.toList.toArray
        | none =>
          let nm := idName mp.length
          mp := mp ++ [(key, nm)]
          out := out ++ nm.toList.toArray
      else
        out := out ++ run.toArray
      i := j
    else
      out := out.push cs[i]!
      i := i + 1
  return (String.mk out.toList, mp)

def alphaAttrs (m : List (String × String)) : List Attr → List Attr × List (String × String)
  | [] => ([], m)
  | (k, v) :: r =>
    let (v', m1) := alphaStr m v
    let (r', m2) := alphaAttrs m1 r
    ((k, v') :: r', m2)

def alphaToks (m : List (String × String)) : List CTok → List CTok
  | [] => []
  | .o n a :: r => let (a', m') := alphaAttrs m a; .o n a' :: alphaToks m' r
  | .v n a :: r => let (a', m') := alphaAttrs m a; .v n a' :: alphaToks m' r
  | .t s :: r => let (s', m') := alphaStr m s; .t s' :: alphaToks m' r
  | x :: r => x :: alphaToks m r

/-- first index at which two canonical token lists differ -/
def firstDiff : Nat → List CTok → List CTok → Option (Nat × String × String)
  | _, [], [] => none
  | i, x :: _, [] => some (i, showTok x, "(end)")
  | i, [], y :: _ => some (i, "(end)", showTok y)
  | i, x :: xs, y :: ys => if x == y then firstDiff (i + 1) xs ys else some (i, showTok x, showTok y)

def clip (s : String) : String := if s.length > 400 then (s.take 400).toString ++ "…" else s

def report (a b : List CTok) : String :=
  match firstDiff 0 a b with
  | none => s!"eq {a.length}"
  | some (i, x, y) => s!"diff {i} {clip x} ||| {clip y}"

/-! ### reference bodies: children, blocks, merge -/

def hasAttr (a : String) (k : String) : Bool := (parseAttrs a).any (fun kv => kv.1 == k)

/-- the tokens strictly inside `<div aria-roledescription=…> … </div>` (the body container) -/
def bodyChildren (ts : Array HTok) : Option (List HTok) := Id.run do
  let mut start : Option Nat := none
  for i in [0:ts.size] do
    match ts[i]! with
    | .open_ n a => if start.isNone && n == "div" && hasAttr a "aria-roledescription" then start := some i
    | _ => pure ()
  let some st := start | return none
  -- the last `</div>` before `</body>`
  let mut bodyClose : Option Nat := none
  for i in [0:ts.size] do
    match ts[i]! with
    | .close n => if n == "body" then bodyClose := some i
    | _ => pure ()
  let some bc := bodyClose | return none
  let mut en : Option Nat := none
  for i in [0:bc] do
    match ts[i]! with
    | .close n => if n == "div" then en := some i
    | _ => pure ()
  let some e := en | return none
  if e ≤ st then return none
  return some ((ts.extract (st + 1) e).toList)

def isMarkup : HTok → Bool
  | .open_ .. | .close .. | .void .. | .text .. => true
  | _ => false

def isBlankText : HTok → Bool
  | .text s => wsCollapse s == ""
  | _ => false

/-- cut at depth 0 of the all-clients view; a cut inside a merged Outlook comment re-inserts the `endif` / `if` pair -/
def splitBlocks (ts : List HTok) : List (List HTok) := Id.run do
  let mut frags : Array (List HTok) := #[]
  let mut cur : Array HTok := #[]
  let mut depth : Nat := 0
  let mut mode : Nat := 0    -- 0 html, 1 mso, 2 not-mso
  for t in ts do
    if isBlankText t then continue
    match t with
    | .msoOpen _ => mode := 1; cur := cur.push t
    | .msoClose =>
      mode := 0; cur := cur.push t
      if depth == 0 then
        frags := frags.push cur.toList; cur := #[]
    | .notMsoOpen _ => mode := 2; cur := cur.push t
    | .notMsoClose => mode := 0; cur := cur.push t
    | .open_ .. =>
      if depth == 0 && mode == 1 && cur.any isMarkup then
        cur := cur.push .msoClose
        frags := frags.push cur.toList
        cur := #[HTok.msoOpen "mso | IE"]
      depth := depth + 1; cur := cur.push t
    | .close _ =>
      depth := depth - 1; cur := cur.push t
      if depth == 0 && mode == 0 then
        frags := frags.push cur.toList; cur := #[]
    | _ =>
      cur := cur.push t
      if depth == 0 && mode == 0 then
        frags := frags.push cur.toList; cur := #[]
  if cur.size > 0 then frags := frags.push cur.toList
  return frags.toList

/-- depth change of a fragment in the all-clients view -/
def depthDelta (f : List HTok) : Int :=
  f.foldl (fun d t => match t with | .open_ .. => d + 1 | .close _ => d - 1 | _ => d) 0

/-- group fragments into blocks: accumulate until the all-clients depth returns to 0 -/
def coalesce (frags : List (List HTok)) : List (List HTok) := Id.run do
  let mut groups : Array (List HTok) := #[]
  let mut cur : List HTok := []
  let mut depth : Int := 0
  for f in frags do
    cur := cur ++ f
    depth := depth + depthDelta f
    if depth == 0 then
      groups := groups.push cur; cur := []
  if !cur.isEmpty then groups := groups.push cur
  return groups.toList

/-- MJML's mergeOutlookConditionnals on real tokens: `Merge.merge` on the abstraction co / cc / other(i) -/
def mergeH (ts : List HTok) : List HTok :=
  let arr := ts.toArray
  let abs : List Merge.Tok := (List.range arr.size).map fun i =>
    match arr[i]! with
    | .msoOpen cnd => if wsCollapse cnd == "mso | IE" then Merge.Tok.co else Merge.Tok.t i
    | .msoClose => Merge.Tok.cc
    | _ => Merge.Tok.t i
  (Merge.merge abs).map fun a =>
    match a with
    | .co => HTok.msoOpen "mso | IE"
    | .cc => HTok.msoClose
    | .t i => arr[i]!

/-- fragments are concatenated as bytes: two text tokens that become adjacent are one text -/
def joinTexts : List HTok → List HTok
  | .text a :: .text b :: r => joinTexts (.text (a ++ b) :: r)
  | x :: r => x :: joinTexts r
  | [] => []
termination_by l => l.length

def blocksOf (refHtml : ByteArray) : Option (List HTok × List (List HTok)) :=
  match bodyChildren (Lex.lex refHtml) with
  | none => none
  | some kids => some (kids, coalesce (splitBlocks kids))

def kindOf (g : List HTok) : String :=
  match g.find? (fun t => match t with | .open_ .. => true | .void .. => true | .text .. => true | _ => false) with
  | some (.open_ n _) => n
  | some (.void n _) => n
  | some (.text _) => "text"
  | _ => "-"

def cmpHandle (args : List String) : String :=
  match args with
  | [a, b] => report (alphaToks [] (canon (Lex.lex (unhex a)).toList)) (alphaToks [] (canon (Lex.lex (unhex b)).toList))
  | _ => "bad-request"

/-- `refcanon <hex>`: the canonical tokens, one per word, hex-encoded -/
def canonHandle (args : List String) : String :=
  match args with
  | [a] => " ".intercalate ((alphaToks [] (canon (Lex.lex (unhex a)).toList)).map fun t => Driver.HtmlP.hexS (showTok t))
  | _ => "bad-request"

def splitHandle (args : List String) : String :=
  match args with
  | [a] =>
    match blocksOf (unhex a) with
    | none => "no-body"
    | some (kids, groups) =>
      let rt := canon (mergeH groups.flatten) == canon kids
      s!"groups={groups.length} rt={if rt then "ok" else "bad"} kinds={",".intercalate (groups.map kindOf)}"
  | _ => "bad-request"

def pickBlocks : List String → Option (List HTok)
  | [] => some []
  | r :: i :: rest =>
    match blocksOf (unhex r), i.toNat?, pickBlocks rest with
    | some (_, groups), some k, some more =>
      match groups[k]? with
      | some g => some (g.map (fun t => match t with | .text s => HTok.text (wsCollapse s) | x => x) ++ more)   -- boundary white space of a beautified reference is formatting
      | none => none
    | _, _, _ => none
  | _ => none

def composeHandle (args : List String) : String :=
  match args with
  | real :: refs =>
    match bodyChildren (Lex.lex (unhex real)), pickBlocks refs with
    | some kids, some expected => report (alphaToks [] (canon (joinTexts kids))) (alphaToks [] (canon (joinTexts (mergeH expected))))
    | none, _ => "no-body"
    | _, none => "bad-blocks"
  | _ => "bad-request"

/-! ### the Model of the body loop (`Merge.bodyLoop`) run on real solo outputs -/

structure RBlk where
  toks : List HTok      -- body children of the block rendered alone
  chain : Bool
  consumes : Bool

def isMsoIE : HTok → Bool
  | .msoOpen cnd => wsCollapse cnd == "mso | IE"
  | _ => false

def isMsoClose : HTok → Bool
  | .msoClose => true
  | _ => false

/-- abstract a list of real blocks: token `t i` = entry `i` of the table of all non-marker tokens -/
def abstractBlocks (bs : List RBlk) : List Merge.Blk × Array HTok := Id.run do
  let mut table : Array HTok := #[]
  let mut out : Array Merge.Blk := #[]
  for b in bs do
    let ts := b.toks.filter (fun t => !isBlankText t)
    let startsCO := match ts.head? with | some t => isMsoIE t | none => false
    let endsCC := match ts.getLast? with | some t => isMsoClose t && ts.length > 1 | none => false
    let mid := (if startsCO then ts.tail else ts)
    let mid := (if endsCC then mid.dropLast else mid)
    let mut body : Array Merge.Tok := #[]
    for t in mid do
      if isMsoIE t then body := body.push Merge.Tok.co
      else if isMsoClose t then body := body.push Merge.Tok.cc
      else
        body := body.push (Merge.Tok.t table.size)
        table := table.push t
    out := out.push { body := body.toList, startsCO := startsCO, endsCC := endsCC, chain := b.chain, consumes := b.consumes, blank := ts.isEmpty }
  return (out.toList, table)

def concrete (table : Array HTok) (ts : List Merge.Tok) : List HTok :=
  ts.map fun a => match a with
    | .co => HTok.msoOpen "mso | IE"
    | .cc => HTok.msoClose
    | .t i => table[i]!

/-- decidable part of `Merge.Blk.WF` -/
def blkWF (b : Merge.Blk) : Bool :=
  (!b.chain || b.endsCC) && (!b.consumes || b.startsCO) && (b.blank == b.body.isEmpty) &&
  (!b.blank || (!b.startsCO && !b.endsCC && !b.chain && !b.consumes)) &&
  (b.body.head? != some Merge.Tok.co) && (b.body.getLast? != some Merge.Tok.cc) &&
  (Merge.merge b.body == b.body)

def parseRBlks : List String → Option (List RBlk)
  | [] => some []
  | h :: f :: rest =>
    match bodyChildren (Lex.lex (unhex h)), parseRBlks rest with
    | some kids, some more => some (⟨kids, f.contains 'c', f.contains 'n'⟩ :: more)
    | _, _ => none
  | _ => none

/-- `refloop <hexComposed> (<hexSolo> <flags>)…`  flags: `c` chain, `n` consumes, `-` none.
    Answers `wf=<0|1>` and the comparison of the composed body with the Model's body loop on the solo outputs. -/
def loopHandle (args : List String) : String :=
  match args with
  | real :: blocks =>
    match bodyChildren (Lex.lex (unhex real)), parseRBlks blocks with
    | some kids, some bs =>
      let (abs, table) := abstractBlocks bs
      let wf := abs.all blkWF
      let model := concrete table (Merge.bodyLoop abs)
      s!"wf={if wf then 1 else 0} " ++ report (alphaToks [] (canon (joinTexts kids))) (alphaToks [] (canon (joinTexts model)))
    | none, _ => "no-body"
    | _, none => "bad-blocks"
  | _ => "bad-request"

end Driver.RefP
