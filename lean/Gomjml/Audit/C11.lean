import Gomjml.Props.C11
#print axioms Gomjml.Props.C11.C11_classes
#print axioms Gomjml.Props.C11.C11_width_encoded
#print axioms Gomjml.Props.C11.C11_font_lookup
