import Gomjml.Props.C10
#print axioms Gomjml.Props.C10.C10_top_level
#print axioms Gomjml.Props.C10.C10_in_wrapper
#print axioms Gomjml.Props.C10.C10_box
#print axioms Gomjml.Props.C10.C10_box_exact
#print axioms Gomjml.Props.C10.C10_nesting
#print axioms Gomjml.Props.C10.C10_hero
#print axioms Gomjml.Props.C10.C10_outlook_px
#print axioms Gomjml.Props.C10.C10_sibling_sum_partial
#print axioms Gomjml.Props.C10.C10_sibling_sum_exact_widths
#print axioms Gomjml.Props.C10.C10_sibling_sum_counterexample
#print axioms Gomjml.Props.C10.C10_leaf_fills
#print axioms Gomjml.Props.C10.C10_column_content
#print axioms Gomjml.Props.C10.C10_explicit_width_clamped
#print axioms Gomjml.Props.C10.C10_length_sites
#print axioms Gomjml.Props.C10.C10_horizontal_pair_is_css
#print axioms Gomjml.Props.C10.C10_shorthand_spelling
#print axioms Gomjml.Props.C10.C10_divider_percentage
