import Gomjml.Core.Leaves
/-! Every content component is inert for the three Spec checkers, whatever its parameters and however many children it has;
    and it contains exactly its author-content slots. -/
namespace Gomjml.Leaves
open Gomjml.Spec Gomjml.Expand

/-- the visibility checker never looks at its stack -/
theorem vis_any_stack : ∀ (xs : List GTok) (m m' : Nat) (S S' st : List String),
    runE visStep ⟨m, S⟩ xs = .ok ⟨m', S'⟩ → runE visStep ⟨m, st⟩ xs = .ok ⟨m', st⟩ := by
  intro xs
  induction xs with
  | nil => intro m m' S S' st h; simp only [runE] at h ⊢; simp at h; simp [h.1]
  | cons x r ih =>
    intro m m' S S' st h
    simp only [runE] at h ⊢
    cases x with
    | o b n => simp only [visStep] at h ⊢; exact ih _ _ _ _ _ h
    | c b n => simp only [visStep] at h ⊢; exact ih _ _ _ _ _ h
    | v b n => simp only [visStep] at h ⊢; exact ih _ _ _ _ _ h
    | t str =>
      simp only [visStep] at h ⊢
      by_cases hm : m = 1
      · simp [hm] at h
      · simp only [hm, if_false] at h ⊢; exact ih _ _ _ _ _ h
    | co =>
      simp only [visStep, markers] at h ⊢
      by_cases hm : m = 0
      · simp only [hm, if_true] at h ⊢; exact ih _ _ _ _ _ h
      · simp [hm] at h
    | cc =>
      simp only [visStep, markers] at h ⊢
      by_cases hm : m = 1
      · simp only [hm, if_true] at h ⊢; exact ih _ _ _ _ _ h
      · simp [hm] at h
    | nco =>
      simp only [visStep, markers] at h ⊢
      by_cases hm : m = 0
      · simp only [hm, if_true] at h ⊢; exact ih _ _ _ _ _ h
      · simp [hm] at h
    | ncc =>
      simp only [visStep, markers] at h ⊢
      by_cases hm : m = 2
      · simp only [hm, if_true] at h ⊢; exact ih _ _ _ _ _ h
      · simp [hm] at h

section
variable {step : VS → GTok → Except String VS}

/-- concrete opening, inert middle, concrete closing — evaluated once per checker (the visibility checker keeps no stack) -/
theorem sandwich3 (hc : IsChecker step) (pre mid post : List GTok) (Ss Sm : List String)
    (h1 : runE stdStep ⟨0, []⟩ pre = .ok ⟨0, Ss⟩) (h1' : runE stdStep ⟨0, Ss⟩ post = .ok ⟨0, []⟩)
    (h2 : runE msoStep ⟨0, []⟩ pre = .ok ⟨0, Sm⟩) (h2' : runE msoStep ⟨0, Sm⟩ post = .ok ⟨0, []⟩)
    (h3 : runE visStep ⟨0, []⟩ pre = .ok ⟨0, []⟩) (h3' : runE visStep ⟨0, []⟩ post = .ok ⟨0, []⟩)
    (hmid : Moves step [] [] mid) : Moves step [] [] (pre ++ mid ++ post) := by
  rcases hc with rfl | rfl | rfl
  · exact movesM_append (movesM_append (movesM_of_closed std_framed 0 0 [] Ss _ h1) (movesM_base hmid Ss)) (movesM_of_closed std_framed 0 0 Ss [] _ h1')
  · exact movesM_append (movesM_append (movesM_of_closed mso_framed 0 0 [] Sm _ h2) (movesM_base hmid Sm)) (movesM_of_closed mso_framed 0 0 Sm [] _ h2')
  · exact movesM_append (movesM_append (movesM_of_closed vis_framed 0 0 [] [] _ h3) hmid) (movesM_of_closed vis_framed 0 0 [] [] _ h3')

/-! ### the simple leaves: concrete after case analysis on their Boolean parameters -/

theorem text_moves (hc : IsChecker step) (cn : Bool) : Moves step [] [] (textToks cn) := by
  cases cn <;> exact movesM_closed3 hc 0 0 [] [] _ (by rfl) (by rfl) (by rfl)

theorem button_moves (hc : IsChecker step) (h cn : Bool) : Moves step [] [] (buttonToks h cn) := by
  cases h <;> cases cn <;> exact movesM_closed3 hc 0 0 [] [] _ (by rfl) (by rfl) (by rfl)

theorem image_moves (hc : IsChecker step) (h : Bool) : Moves step [] [] (imageToks h) := by
  cases h <;> exact movesM_closed3 hc 0 0 [] [] _ (by rfl) (by rfl) (by rfl)

theorem divider_moves (hc : IsChecker step) : Moves step [] [] dividerToks := movesM_closed3 hc 0 0 [] [] _ (by rfl) (by rfl) (by rfl)
theorem spacer_moves (hc : IsChecker step) : Moves step [] [] spacerToks := movesM_closed3 hc 0 0 [] [] _ (by rfl) (by rfl) (by rfl)

theorem table_moves (hc : IsChecker step) (rows : Nat) (tx : Bool) : Moves step [] [] (tableToks rows tx) := by
  unfold tableToks
  have hrow : Moves step [] [] tableRow := movesM_closed3 hc 0 0 _ _ _ (by rfl) (by rfl) (by rfl)
  apply sandwich3 hc _ _ _ ["table", "td", "tr"] ["table", "td", "tr"] (by rfl) (by rfl) (by rfl) (by rfl) (by rfl) (by rfl)
  split
  · cases tx
    · exact movesM_nil _ _ _
    · exact movesM_closed3 hc 0 0 _ _ _ (by rfl) (by rfl) (by rfl)
  · exact movesM_replicate 0 [] _ rows hrow

theorem rawG_moves (hc : IsChecker step) (b : Bool) : Moves step [] [] (rawG b) := by
  cases b
  · exact movesM_closed3 hc 0 0 [] [] _ (by rfl) (by rfl) (by rfl)
  · exact movesM_nil _ _ _

/-! ### mj-social -/

theorem socElH_moves (hc : IsChecker step) (e : SocEl) : Moves step [] [] (socElH e) := by
  obtain ⟨h, tx⟩ := e
  cases h <;> cases tx <;> exact movesM_closed3 hc 0 0 [] [] _ (by rfl) (by rfl) (by rfl)

theorem socElV_moves (hc : IsChecker step) (e : SocEl) : Moves step [] [] (socElV e) := by
  obtain ⟨h, tx⟩ := e
  cases h <;> cases tx <;> exact movesM_closed3 hc 0 0 [] [] _ (by rfl) (by rfl) (by rfl)

theorem socKidV_moves (hc : IsChecker step) (k : SocChild) : Moves step [] [] (socKidV k) := by
  cases k with
  | el e => exact socElV_moves hc e
  | raw b => exact rawG_moves hc b

/-- the separator closes the Outlook cell that is open and opens the next one: with a `td` on top, nothing changes -/
theorem socSep_moves (hc : IsChecker step) : Moves step ["td"] ["td"] socSep :=
  movesM_closed3 hc 0 0 _ _ _ (by rfl) (by rfl) (by rfl)

/-- with a cell open, the loop over ANY list of children (elements and raw content, whatever the counter says) leaves exactly
    that cell open -/
theorem socLoop_moves (hc : IsChecker step) : ∀ (kids : List SocChild) (rem : Nat), Moves step ["td"] ["td"] (socLoop rem kids)
  | [], _ => movesM_nil _ _ _
  | .raw b :: r, rem => by
    simp only [socLoop]
    exact movesM_append (movesM_base (rawG_moves hc b) ["td"]) (socLoop_moves hc r rem)
  | .el e :: r, rem => by
    simp only [socLoop]
    refine movesM_append (movesM_append (movesM_base (socElH_moves hc e) ["td"]) ?_) (socLoop_moves hc r (rem - 1))
    split
    · exact socSep_moves hc
    · exact movesM_nil _ _ _

/-- without elements the loop writes raw content only -/
theorem socLoop_noel (hc : IsChecker step) : ∀ (kids : List SocChild) (rem : Nat), kids.countP SocChild.isEl = 0 →
    Moves step [] [] (socLoop rem kids)
  | [], _, _ => movesM_nil _ _ _
  | .raw b :: r, rem, h => by
    simp only [socLoop]
    exact movesM_append (rawG_moves hc b) (socLoop_noel hc r rem (by simpa [List.countP_cons, SocChild.isEl] using h))
  | .el e :: r, rem, h => by simp [List.countP_cons, SocChild.isEl] at h

theorem social_moves (hc : IsChecker step) (vm : Bool) (kids : List SocChild) : Moves step [] [] (socialToks vm kids) := by
  unfold socialToks
  simp only
  cases vm
  · simp only [Bool.false_eq_true, if_false]
    by_cases hn : kids.countP SocChild.isEl > 0
    · simp only [hn, if_true]
      have hmid := socLoop_moves hc kids (kids.countP SocChild.isEl)
      rcases hc with rfl | rfl | rfl
      · have hpre : Moves stdStep [] ["td", "tr"] ([o "tr", o "td"] ++ [.co, o "table", o "tr", o "td", .cc]) :=
          movesM_of_closed std_framed 0 0 _ _ _ (by rfl)
        have hpost : Moves stdStep ["td", "tr"] [] ([.co, c "td", c "tr", c "table", .cc] ++ [c "td", c "tr"]) :=
          movesM_of_closed std_framed 0 0 _ _ _ (by rfl)
        have := movesM_append (movesM_append hpre (movesM_lift hmid ["tr"])) hpost
        simpa [List.append_assoc] using this
      · have hpre : Moves msoStep [] ["td", "tr", "table", "td", "tr"] ([o "tr", o "td"] ++ [.co, o "table", o "tr", o "td", .cc]) :=
          movesM_of_closed mso_framed 0 0 _ _ _ (by rfl)
        have hpost : Moves msoStep ["td", "tr", "table", "td", "tr"] [] ([.co, c "td", c "tr", c "table", .cc] ++ [c "td", c "tr"]) :=
          movesM_of_closed mso_framed 0 0 _ _ _ (by rfl)
        have := movesM_append (movesM_append hpre (movesM_lift hmid ["tr", "table", "td", "tr"])) hpost
        simpa [List.append_assoc] using this
      · -- the visibility checker keeps no stack: run the loop from the empty stack
        have hloop : Moves visStep [] [] (socLoop (kids.countP SocChild.isEl) kids) := by
          intro st
          have := hmid []
          -- visStep never looks at the stack: the run from [] ++ st equals the run from ["td"] up to the stack
          simpa using vis_any_stack _ 0 0 _ _ st this
        have hpre : Moves visStep [] [] ([o "tr", o "td"] ++ [.co, o "table", o "tr", o "td", .cc]) :=
          movesM_of_closed vis_framed 0 0 _ _ _ (by rfl)
        have hpost : Moves visStep [] [] ([.co, c "td", c "tr", c "table", .cc] ++ [c "td", c "tr"]) :=
          movesM_of_closed vis_framed 0 0 _ _ _ (by rfl)
        have := movesM_append (movesM_append hpre hloop) hpost
        simpa [List.append_assoc] using this
    · simp only [hn, if_false]
      have h0 : kids.countP SocChild.isEl = 0 := by omega
      have hmid := socLoop_noel hc kids (kids.countP SocChild.isEl) h0
      have := sandwich3 hc ([o "tr", o "td"] ++ [.co, o "table", o "tr", .cc]) _ ([.co, c "tr", c "table", .cc] ++ [c "td", c "tr"])
        ["td", "tr"] ["tr", "table", "td", "tr"] (by rfl) (by rfl) (by rfl) (by rfl) (by rfl) (by rfl) hmid
      simpa [List.append_assoc] using this
  · simp only [if_true]
    have hmid := movesM_flatMap 0 [] socKidV kids (fun k _ => socKidV_moves hc k)
    have := sandwich3 hc ([o "tr", o "td"] ++ [o "table", o "tbody"]) _ ([c "tbody", c "table"] ++ [c "td", c "tr"])
      ["tbody", "table", "td", "tr"] ["tbody", "table", "td", "tr"] (by rfl) (by rfl) (by rfl) (by rfl) (by rfl) (by rfl) hmid
    simpa [List.append_assoc] using this

/-! ### mj-navbar -/

theorem navLink_moves (hc : IsChecker step) (cn : Bool) : Moves step [] [] (navLink cn) := by
  cases cn <;> exact movesM_closed3 hc 0 0 [] [] _ (by rfl) (by rfl) (by rfl)

/-- children behind the first link: each further link closes the previous Outlook cell and opens its own; raw content in between -/
theorem navLoop_moves (hc : IsChecker step) : ∀ kids : List NavChild, Moves step ["td"] ["td"] (navLoop false false kids)
  | [] => movesM_nil _ _ _
  | .raw b :: r => by
    simp only [navLoop, Bool.false_eq_true, if_false, List.nil_append]
    exact movesM_append (movesM_base (rawG_moves hc b) ["td"]) (navLoop_moves hc r)
  | .link cn :: r => by
    simp only [navLoop, Bool.false_eq_true, if_false]
    have hsep : Moves step ["td"] ["td"] [.co, c "td", o "td", .cc] := movesM_closed3 hc 0 0 _ _ _ (by rfl) (by rfl) (by rfl)
    exact movesM_append (movesM_append hsep (movesM_base (navLink_moves hc cn) ["td"])) (navLoop_moves hc r)

/-- children in front of the first link, the opening conditional already closed (by raw content): raw content is written
    outside conditionals; the first link opens a conditional for its cell.  For Outlook a cell is open afterwards iff there
    was a link. -/
theorem navLoop_first_mso : ∀ kids : List NavChild,
    Moves msoStep [] (if kids.any NavChild.isLink then ["td"] else []) (navLoop false true kids)
  | [] => movesM_nil _ _ _
  | .raw b :: r => by
    have ih := navLoop_first_mso r
    simp only [navLoop, Bool.false_eq_true, if_false, List.nil_append, List.any_cons, NavChild.isLink, Bool.false_or]
    exact movesM_append (rawG_moves (Or.inr (Or.inl rfl)) b) ih
  | .link cn :: r => by
    simp only [navLoop, Bool.false_eq_true, if_false, if_true, List.any_cons, NavChild.isLink, Bool.true_or]
    have h1 : Moves msoStep [] ["td"] ([.co] ++ [o "td", .cc]) := movesM_of_closed mso_framed 0 0 _ _ _ (by rfl)
    exact movesM_append (movesM_append h1 (movesM_base (navLink_moves (Or.inr (Or.inl rfl)) cn) ["td"])) (navLoop_moves (Or.inr (Or.inl rfl)) r)

/-- for a checker that passes the cell markup on the empty stack (standard clients skip it, the visibility check keeps no
    stack) the whole loop behind the opening conditional is inert -/
theorem navLoop_flat (hc : IsChecker step) (hf : Framed step)
    (h1 : runE step ⟨0, []⟩ [.co, o "td", .cc] = .ok ⟨0, []⟩) (h2 : runE step ⟨0, []⟩ [.co, c "td", o "td", .cc] = .ok ⟨0, []⟩) :
    ∀ (first : Bool) (kids : List NavChild), Moves step [] [] (navLoop false first kids)
  | _, [] => movesM_nil _ _ _
  | first, .raw b :: r => by
    simp only [navLoop, Bool.false_eq_true, if_false, List.nil_append]
    exact movesM_append (rawG_moves hc b) (navLoop_flat hc hf h1 h2 first r)
  | first, .link cn :: r => by
    simp only [navLoop, Bool.false_eq_true, if_false]
    refine movesM_append (movesM_append ?_ (navLink_moves hc cn)) (navLoop_flat hc hf h1 h2 false r)
    cases first
    · exact movesM_of_closed hf 0 0 [] [] _ h2
    · exact movesM_of_closed hf 0 0 [] [] _ h1

theorem hamburger_part (hc : IsChecker step) (hb : Bool) : Moves step [] [] (ite' hb hamburgerToks) := by
  cases hb
  · exact movesM_nil _ _ _
  · exact movesM_closed3 hc 0 0 [] [] _ (by rfl) (by rfl) (by rfl)

end

/-- the three ways a navbar starts: no child at all; raw content first (it closes the opening conditional); a link first (its
    cell continues the opening conditional) -/
theorem navbar_shape_raw (hb b : Bool) (r : List NavChild) :
    navbarToks hb (.raw b :: r) =
      [o "tr", o "td"] ++ (ite' hb hamburgerToks ++ ([o "div", .co, o "table", o "tr", .cc] ++ (rawG b ++ (navLoop false true r ++
      ((if r.any NavChild.isLink then [.co, c "td"] else [.co]) ++ [c "tr", c "table", .cc, c "div", c "td", c "tr"]))))) := by
  simp [navbarToks, navLoop, List.append_assoc, NavChild.isLink]

theorem navbar_shape_link (hb cn : Bool) (r : List NavChild) :
    navbarToks hb (.link cn :: r) =
      [o "tr", o "td"] ++ (ite' hb hamburgerToks ++ ([o "div", .co, o "table", o "tr", o "td", .cc] ++ (navLink cn ++ (navLoop false false r ++
      [.co, c "td", c "tr", c "table", .cc, c "div", c "td", c "tr"])))) := by
  simp [navbarToks, navLoop, List.append_assoc, NavChild.isLink]

theorem navbar_std (hb : Bool) (kids : List NavChild) : Moves stdStep [] [] (navbarToks hb kids) := by
  have hc : IsChecker stdStep := Or.inl rfl
  have flat := navLoop_flat hc std_framed (by rfl) (by rfl)
  have h0 : Moves stdStep [] ["td", "tr"] [o "tr", o "td"] := movesM_of_closed std_framed 0 0 _ _ _ (by rfl)
  have h1 := movesM_base (hamburger_part hc hb) ["td", "tr"]
  cases kids with
  | nil => cases hb <;> exact movesM_of_closed std_framed 0 0 [] [] _ (by rfl)
  | cons k r =>
    cases k with
    | raw b =>
      rw [navbar_shape_raw]
      have h2 : Moves stdStep ["td", "tr"] ["div", "td", "tr"] [o "div", .co, o "table", o "tr", .cc] := movesM_of_closed std_framed 0 0 _ _ _ (by rfl)
      have h3 := movesM_base (rawG_moves hc b) ["div", "td", "tr"]
      have h4 := movesM_base (flat true r) ["div", "td", "tr"]
      have h5 : Moves stdStep ["div", "td", "tr"] []
          ((if r.any NavChild.isLink then [.co, c "td"] else [.co]) ++ [c "tr", c "table", .cc, c "div", c "td", c "tr"]) := by
        split <;> exact movesM_of_closed std_framed 0 0 _ _ _ (by rfl)
      exact movesM_append h0 (movesM_append h1 (movesM_append h2 (movesM_append h3 (movesM_append h4 h5))))
    | link cn =>
      rw [navbar_shape_link]
      have h2 : Moves stdStep ["td", "tr"] ["div", "td", "tr"] [o "div", .co, o "table", o "tr", o "td", .cc] := movesM_of_closed std_framed 0 0 _ _ _ (by rfl)
      have h3 := movesM_base (navLink_moves hc cn) ["div", "td", "tr"]
      have h4 := movesM_base (flat false r) ["div", "td", "tr"]
      have h5 : Moves stdStep ["div", "td", "tr"] [] [.co, c "td", c "tr", c "table", .cc, c "div", c "td", c "tr"] :=
        movesM_of_closed std_framed 0 0 _ _ _ (by rfl)
      exact movesM_append h0 (movesM_append h1 (movesM_append h2 (movesM_append h3 (movesM_append h4 h5))))

theorem navbar_mso (hb : Bool) (kids : List NavChild) : Moves msoStep [] [] (navbarToks hb kids) := by
  have hc : IsChecker msoStep := Or.inr (Or.inl rfl)
  have h0 : Moves msoStep [] ["td", "tr"] [o "tr", o "td"] := movesM_of_closed mso_framed 0 0 _ _ _ (by rfl)
  have h1 := movesM_base (hamburger_part hc hb) ["td", "tr"]
  cases kids with
  | nil => cases hb <;> exact movesM_of_closed mso_framed 0 0 [] [] _ (by rfl)
  | cons k r =>
    cases k with
    | raw b =>
      rw [navbar_shape_raw]
      have h2 : Moves msoStep ["td", "tr"] ["tr", "table", "div", "td", "tr"] [o "div", .co, o "table", o "tr", .cc] :=
        movesM_of_closed mso_framed 0 0 _ _ _ (by rfl)
      have h3 := movesM_base (rawG_moves hc b) ["tr", "table", "div", "td", "tr"]
      have h4 := movesM_lift (navLoop_first_mso r) ["tr", "table", "div", "td", "tr"]
      by_cases hl : r.any NavChild.isLink = true
      · simp only [hl, if_true] at h4 ⊢
        have h5 : Moves msoStep (["td"] ++ ["tr", "table", "div", "td", "tr"]) [] ([.co, c "td"] ++ [c "tr", c "table", .cc, c "div", c "td", c "tr"]) :=
          movesM_of_closed mso_framed 0 0 _ _ _ (by rfl)
        exact movesM_append h0 (movesM_append h1 (movesM_append h2 (movesM_append h3 (movesM_append h4 h5))))
      · have hl' : r.any NavChild.isLink = false := by simpa using hl
        simp only [hl', Bool.false_eq_true, if_false] at h4 ⊢
        have h5 : Moves msoStep ([] ++ ["tr", "table", "div", "td", "tr"]) [] ([.co] ++ [c "tr", c "table", .cc, c "div", c "td", c "tr"]) :=
          movesM_of_closed mso_framed 0 0 _ _ _ (by rfl)
        exact movesM_append h0 (movesM_append h1 (movesM_append h2 (movesM_append h3 (movesM_append h4 h5))))
    | link cn =>
      rw [navbar_shape_link]
      have h2 : Moves msoStep ["td", "tr"] ["td", "tr", "table", "div", "td", "tr"] [o "div", .co, o "table", o "tr", o "td", .cc] :=
        movesM_of_closed mso_framed 0 0 _ _ _ (by rfl)
      have h3 := movesM_base (navLink_moves hc cn) ["td", "tr", "table", "div", "td", "tr"]
      have h4 := movesM_lift (navLoop_moves hc r) ["tr", "table", "div", "td", "tr"]
      have h5 : Moves msoStep ["td", "tr", "table", "div", "td", "tr"] [] [.co, c "td", c "tr", c "table", .cc, c "div", c "td", c "tr"] :=
        movesM_of_closed mso_framed 0 0 _ _ _ (by rfl)
      exact movesM_append h0 (movesM_append h1 (movesM_append h2 (movesM_append h3 (movesM_append h4 h5))))

theorem navbar_vis (hb : Bool) (kids : List NavChild) : Moves visStep [] [] (navbarToks hb kids) := by
  have hc : IsChecker visStep := Or.inr (Or.inr rfl)
  have flat := navLoop_flat hc vis_framed (by rfl) (by rfl)
  have h0 : Moves visStep [] [] [o "tr", o "td"] := movesM_of_closed vis_framed 0 0 _ _ _ (by rfl)
  have h1 := hamburger_part hc hb
  cases kids with
  | nil => cases hb <;> exact movesM_of_closed vis_framed 0 0 [] [] _ (by rfl)
  | cons k r =>
    cases k with
    | raw b =>
      rw [navbar_shape_raw]
      have h2 : Moves visStep [] [] [o "div", .co, o "table", o "tr", .cc] := movesM_of_closed vis_framed 0 0 _ _ _ (by rfl)
      have h5 : Moves visStep [] [] ((if r.any NavChild.isLink then [.co, c "td"] else [.co]) ++ [c "tr", c "table", .cc, c "div", c "td", c "tr"]) := by
        split <;> exact movesM_of_closed vis_framed 0 0 _ _ _ (by rfl)
      exact movesM_append h0 (movesM_append h1 (movesM_append h2 (movesM_append (rawG_moves hc b) (movesM_append (flat true r) h5))))
    | link cn =>
      rw [navbar_shape_link]
      have h2 : Moves visStep [] [] [o "div", .co, o "table", o "tr", o "td", .cc] := movesM_of_closed vis_framed 0 0 _ _ _ (by rfl)
      have h5 : Moves visStep [] [] [.co, c "td", c "tr", c "table", .cc, c "div", c "td", c "tr"] := movesM_of_closed vis_framed 0 0 _ _ _ (by rfl)
      exact movesM_append h0 (movesM_append h1 (movesM_append h2 (movesM_append (navLink_moves hc cn) (movesM_append (flat false r) h5))))

/-! ### mj-accordion -/

section
variable {step : VS → GTok → Except String VS}

theorem accPart_moves (hc : IsChecker step) (il : Bool) (p : AccPart) : Moves step [] [] (accPartToks il p) := by
  cases p with
  | title cn => cases il <;> cases cn <;> exact movesM_closed3 hc 0 0 [] [] _ (by rfl) (by rfl) (by rfl)
  | text cn => cases cn <;> exact movesM_closed3 hc 0 0 [] [] _ (by rfl) (by rfl) (by rfl)
  | raw b => exact rawG_moves hc b

theorem accEl_moves (hc : IsChecker step) (e : AccEl) : Moves step [] [] (accElToks e) := by
  unfold accElToks
  exact sandwich3 hc _ _ _ ["div", "label", "td", "tr"] ["div", "label", "td", "tr"] (by rfl) (by rfl) (by rfl) (by rfl) (by rfl) (by rfl)
    (movesM_flatMap 0 [] _ e.parts (fun p _ => accPart_moves hc e.iconLeft p))

theorem accKid_moves (hc : IsChecker step) (k : AccChild) : Moves step [] [] (accKidToks k) := by
  cases k with
  | el e => exact accEl_moves hc e
  | raw b => exact rawG_moves hc b

theorem accordion_moves (hc : IsChecker step) (kids : List AccChild) : Moves step [] [] (accordionToks kids) := by
  unfold accordionToks
  exact sandwich3 hc _ _ _ ["tbody", "table", "td", "tr"] ["tbody", "table", "td", "tr"] (by rfl) (by rfl) (by rfl) (by rfl) (by rfl) (by rfl)
    (movesM_flatMap 0 [] accKidToks kids (fun k _ => accKid_moves hc k))

/-! ### mj-carousel: everything but the Outlook fall-back sits inside ONE not-Outlook block (mode 2) -/

theorem carImage_in (hc : IsChecker step) (m : Nat) (hm : m = 2 ∨ m = 1) (h : Bool) : MovesM step m [] m [] (carImage h) := by
  rcases hm with rfl | rfl <;> cases h <;> exact movesM_closed3 hc _ _ [] [] _ (by rfl) (by rfl) (by rfl)

theorem carousel_moves (hc : IsChecker step) (th f : Bool) (r : List Bool) : Moves step [] [] (carouselToks th f r) := by
  unfold carouselToks
  simp only
  -- the stack inside the not-Outlook block differs per checker (Outlook skips it): go through it checker by checker
  have inputs : MovesM step 2 [] 2 [] (List.replicate (f :: r).length [v "input"]).flatten :=
    movesM_replicate 2 [] _ _ (movesM_closed3 hc 2 2 [] [] _ (by rfl) (by rfl) (by rfl))
  have thumbs : MovesM step 2 [] 2 [] (ite' th (List.replicate (f :: r).length carThumb).flatten) := by
    cases th
    · exact movesM_nil _ _ _
    · exact movesM_replicate 2 [] _ _ (movesM_closed3 hc 2 2 [] [] _ (by rfl) (by rfl) (by rfl))
  have icons : MovesM step 2 [] 2 [] (List.replicate (f :: r).length carIcon).flatten :=
    movesM_replicate 2 [] _ _ (movesM_closed3 hc 2 2 [] [] _ (by rfl) (by rfl) (by rfl))
  have imgs : MovesM step 2 [] 2 [] ((f :: r).flatMap carImage) :=
    movesM_flatMap 2 [] carImage _ (fun h _ => carImage_in hc 2 (Or.inl rfl) h)
  rcases hc with rfl | rfl | rfl
  · -- standard clients: the not-Outlook block is live markup
    have p1 : MovesM stdStep 0 [] 2 ["div", "td", "tr"] [o "tr", o "td", .nco, o "div"] := movesM_of_closed std_framed _ _ _ _ _ (by rfl)
    have p2 : MovesM stdStep 2 ["div", "td", "tr"] 2 ["div", "div", "td", "tr"] [o "div"] := movesM_of_closed std_framed _ _ _ _ _ (by rfl)
    have p3 : MovesM stdStep 2 ["div", "div", "td", "tr"] 2 ["div", "td", "tr", "tbody", "table", "div", "div", "td", "tr"]
        [o "table", o "tbody", o "tr", o "td", o "div"] := movesM_of_closed std_framed _ _ _ _ _ (by rfl)
    have p4 : MovesM stdStep 2 ["div", "td", "tr", "tbody", "table", "div", "div", "td", "tr"] 2 ["tr", "tbody", "table", "div", "div", "td", "tr"]
        [c "div", c "td"] := movesM_of_closed std_framed _ _ _ _ _ (by rfl)
    have p5 : MovesM stdStep 2 ["tr", "tbody", "table", "div", "div", "td", "tr"] 2 ["div", "td", "tr", "tbody", "table", "div", "div", "td", "tr"]
        [o "td", o "div"] := movesM_of_closed std_framed _ _ _ _ _ (by rfl)
    have p6 : MovesM stdStep 2 ["tr", "tbody", "table", "div", "div", "td", "tr"] 0 ["td", "tr"]
        [c "tr", c "tbody", c "table", c "div", c "div", .ncc] := movesM_of_closed std_framed _ _ _ _ _ (by rfl)
    have fb : MovesM stdStep 0 ["td", "tr"] 0 [] ([.co] ++ carImage f ++ [.cc, c "td", c "tr"]) := by
      cases f <;> exact movesM_of_closed std_framed _ _ _ _ _ (by rfl)
    have := movesM_append p1 (movesM_append (movesM_base inputs _) (movesM_append p2 (movesM_append (movesM_base thumbs _)
      (movesM_append p3 (movesM_append (movesM_base icons _) (movesM_append p4 (movesM_append p5 (movesM_append (movesM_base imgs _)
      (movesM_append p4 (movesM_append p5 (movesM_append (movesM_base icons _) (movesM_append p4 (movesM_append p6 fb)))))))))))))
    simpa [List.append_assoc] using this
  · -- Outlook: the not-Outlook block is skipped altogether; only the fall-back image counts
    have p1 : MovesM msoStep 0 [] 2 ["td", "tr"] [o "tr", o "td", .nco, o "div"] := movesM_of_closed mso_framed _ _ _ _ _ (by rfl)
    have p2 : MovesM msoStep 2 ["td", "tr"] 2 ["td", "tr"] [o "div"] := movesM_of_closed mso_framed _ _ _ _ _ (by rfl)
    have p3 : MovesM msoStep 2 ["td", "tr"] 2 ["td", "tr"] [o "table", o "tbody", o "tr", o "td", o "div"] :=
      movesM_of_closed mso_framed _ _ _ _ _ (by rfl)
    have p4 : MovesM msoStep 2 ["td", "tr"] 2 ["td", "tr"] [c "div", c "td"] := movesM_of_closed mso_framed _ _ _ _ _ (by rfl)
    have p5 : MovesM msoStep 2 ["td", "tr"] 2 ["td", "tr"] [o "td", o "div"] := movesM_of_closed mso_framed _ _ _ _ _ (by rfl)
    have p6 : MovesM msoStep 2 ["td", "tr"] 0 ["td", "tr"] [c "tr", c "tbody", c "table", c "div", c "div", .ncc] :=
      movesM_of_closed mso_framed _ _ _ _ _ (by rfl)
    have fb : MovesM msoStep 0 ["td", "tr"] 0 [] ([.co] ++ carImage f ++ [.cc, c "td", c "tr"]) := by
      cases f <;> exact movesM_of_closed mso_framed _ _ _ _ _ (by rfl)
    have := movesM_append p1 (movesM_append (movesM_base inputs _) (movesM_append p2 (movesM_append (movesM_base thumbs _)
      (movesM_append p3 (movesM_append (movesM_base icons _) (movesM_append p4 (movesM_append p5 (movesM_append (movesM_base imgs _)
      (movesM_append p4 (movesM_append p5 (movesM_append (movesM_base icons _) (movesM_append p4 (movesM_append p6 fb)))))))))))))
    simpa [List.append_assoc] using this
  · -- visibility: no stack at all
    have p1 : MovesM visStep 0 [] 2 [] [o "tr", o "td", .nco, o "div"] := movesM_of_closed vis_framed _ _ _ _ _ (by rfl)
    have p2 : MovesM visStep 2 [] 2 [] [o "div"] := movesM_of_closed vis_framed _ _ _ _ _ (by rfl)
    have p3 : MovesM visStep 2 [] 2 [] [o "table", o "tbody", o "tr", o "td", o "div"] := movesM_of_closed vis_framed _ _ _ _ _ (by rfl)
    have p4 : MovesM visStep 2 [] 2 [] [c "div", c "td"] := movesM_of_closed vis_framed _ _ _ _ _ (by rfl)
    have p5 : MovesM visStep 2 [] 2 [] [o "td", o "div"] := movesM_of_closed vis_framed _ _ _ _ _ (by rfl)
    have p6 : MovesM visStep 2 [] 0 [] [c "tr", c "tbody", c "table", c "div", c "div", .ncc] := movesM_of_closed vis_framed _ _ _ _ _ (by rfl)
    have fb : MovesM visStep 0 [] 0 [] ([.co] ++ carImage f ++ [.cc, c "td", c "tr"]) := by
      cases f <;> exact movesM_of_closed vis_framed _ _ _ _ _ (by rfl)
    have := movesM_append p1 (movesM_append inputs (movesM_append p2 (movesM_append thumbs
      (movesM_append p3 (movesM_append icons (movesM_append p4 (movesM_append p5 (movesM_append imgs
      (movesM_append p4 (movesM_append p5 (movesM_append icons (movesM_append p4 (movesM_append p6 fb)))))))))))))
    simpa [List.append_assoc] using this

end

/-! ### every leaf -/

theorem leaf_moves (step) (hc : IsChecker step) : ∀ l : LeafM, Moves step [] [] l.toks
  | .keep => movesM_closed3 hc 0 0 [] [] _ (by rfl) (by rfl) (by rfl)
  | .text cn => text_moves hc cn
  | .button h cn => button_moves hc h cn
  | .image h => image_moves hc h
  | .divider => divider_moves hc
  | .spacer => spacer_moves hc
  | .table r tx => table_moves hc r tx
  | .social vm kids => social_moves hc vm kids
  | .navbar hb ls => by
    rcases hc with rfl | rfl | rfl
    · exact navbar_std hb ls
    · exact navbar_mso hb ls
    · exact navbar_vis hb ls
  | .accordion kids => accordion_moves hc kids
  | .carousel th f r => carousel_moves hc th f r

/-- **every content component is inert** for standard clients, for Outlook and for the visibility check — for all parameter
    values and any number of children -/
theorem leaf_inert (l : LeafM) : Inert l.toks := inert_of_checkers (fun step hc => leaf_moves step hc l)

end Gomjml.Leaves

/-! ### content accounting: a leaf contains exactly its author-content slots -/
namespace Gomjml.Leaves
open Gomjml.Spec

@[simp] theorem cntT_cons_o (b : Bool) (n : String) (r : List GTok) : cntT (.o b n :: r) = cntT r := by simp [cntT]
@[simp] theorem cntT_cons_c (b : Bool) (n : String) (r : List GTok) : cntT (.c b n :: r) = cntT r := by simp [cntT]
@[simp] theorem cntT_cons_v (b : Bool) (n : String) (r : List GTok) : cntT (.v b n :: r) = cntT r := by simp [cntT]
@[simp] theorem cntT_cons_co (r : List GTok) : cntT (.co :: r) = cntT r := by simp [cntT]
@[simp] theorem cntT_cons_cc (r : List GTok) : cntT (.cc :: r) = cntT r := by simp [cntT]
@[simp] theorem cntT_cons_nco (r : List GTok) : cntT (.nco :: r) = cntT r := by simp [cntT]
@[simp] theorem cntT_cons_ncc (r : List GTok) : cntT (.ncc :: r) = cntT r := by simp [cntT]
@[simp] theorem cntT_cons_t (s : String) (r : List GTok) : cntT (.t s :: r) = cntT r + 1 := by simp [cntT]

theorem cntT_replicate (xs : List GTok) (n : Nat) : cntT (List.replicate n xs).flatten = n * cntT xs := by
  induction n with
  | zero => simp
  | succ k ih => simp [List.replicate_succ, ih, Nat.succ_mul, Nat.add_comm]

theorem cntT_flatMap {α} (f : α → List GTok) (g : α → Nat) (l : List α) (h : ∀ a, cntT (f a) = g a) :
    cntT (l.flatMap f) = (l.map g).sum := by
  induction l with
  | nil => rfl
  | cons a r ih => simp [List.flatMap_cons, h, ih]

theorem cnt_rawG (b : Bool) : cntT (rawG b) = rawSlots b := by cases b <;> rfl
theorem cnt_socElH (e : SocEl) : cntT (socElH e) = b2n e.text := by
  obtain ⟨h, tx⟩ := e; cases h <;> cases tx <;> rfl
theorem cnt_socElV (e : SocEl) : cntT (socElV e) = b2n e.text := by
  obtain ⟨h, tx⟩ := e; cases h <;> cases tx <;> rfl
theorem cnt_socKidV (k : SocChild) : cntT (socKidV k) = k.slots := by
  cases k with
  | el e => exact cnt_socElV e
  | raw b => exact cnt_rawG b
theorem cnt_socLoop : ∀ (kids : List SocChild) (rem : Nat), cntT (socLoop rem kids) = (kids.map SocChild.slots).sum
  | [], _ => rfl
  | .raw b :: r, rem => by simp [socLoop, cnt_rawG, cnt_socLoop r rem, SocChild.slots]
  | .el e :: r, rem => by
    simp only [socLoop, cntT_append, cnt_socElH, cnt_socLoop r (rem - 1), List.map_cons, List.sum_cons, SocChild.slots]
    split <;> simp [socSep, c, o]
theorem cnt_navLink (cn : Bool) : cntT (navLink cn) = b2n cn := by cases cn <;> rfl
theorem cnt_navLoop : ∀ (op first : Bool) (kids : List NavChild), cntT (navLoop op first kids) = (kids.map NavChild.slots).sum
  | _, _, [] => rfl
  | op, first, .raw b :: r => by
    simp only [navLoop, cntT_append, cnt_rawG, cnt_navLoop false first r, List.map_cons, List.sum_cons, NavChild.slots]
    cases op <;> simp
  | op, first, .link cn :: r => by
    simp only [navLoop, cntT_append, cnt_navLink, cnt_navLoop false false r, List.map_cons, List.sum_cons, NavChild.slots]
    cases op <;> cases first <;> simp [o, c]
theorem cnt_accPart (il : Bool) (p : AccPart) : cntT (accPartToks il p) = p.slots := by
  cases p with
  | title cn => cases il <;> cases cn <;> rfl
  | text cn => cases cn <;> rfl
  | raw b => exact cnt_rawG b
theorem cnt_accKid (k : AccChild) : cntT (accKidToks k) = k.slots := by
  cases k with
  | el e =>
    simp only [accKidToks, accElToks, cntT_append, cntT_flatMap _ AccPart.slots e.parts (cnt_accPart e.iconLeft), AccChild.slots]
    simp [o, c, v]
  | raw b => exact cnt_rawG b
theorem cnt_carImage (h : Bool) : cntT (carImage h) = 0 := by cases h <;> rfl

/-- **a content component contains exactly its author-content slots**: nothing the author wrote inside it is dropped or
    written twice — for all parameter values and any number of children -/
theorem leaf_count : ∀ l : LeafM, cntT l.toks = l.slots
  | .keep => rfl
  | .text cn => by cases cn <;> rfl
  | .button h cn => by cases h <;> cases cn <;> rfl
  | .image h => by cases h <;> rfl
  | .divider => rfl
  | .spacer => rfl
  | .table r tx => by
    simp only [LeafM.toks, tableToks, LeafM.slots, cntT_append]
    split
    · cases tx <;> simp [o, c, t, ite', b2n]
    · rw [cntT_replicate]; simp [tableRow, o, c, t]
  | .social vm kids => by
    simp only [LeafM.toks, socialToks, LeafM.slots]
    cases vm
    · simp only [Bool.false_eq_true, if_false, cntT_append, cnt_socLoop]
      split <;> simp [o, c]
    · simp only [if_true, cntT_append, cntT_flatMap socKidV SocChild.slots kids cnt_socKidV]
      simp [o, c]
  | .navbar hb kids => by
    simp only [LeafM.toks, navbarToks, LeafM.slots, cntT_append, cnt_navLoop]
    cases hb <;> split <;> (try split) <;> simp [o, c, v, fill, ite', hamburgerToks]
  | .accordion kids => by
    simp only [LeafM.toks, accordionToks, LeafM.slots, cntT_append, cntT_flatMap accKidToks AccChild.slots kids cnt_accKid]
    simp [o, c]
  | .carousel th f r => by
    simp only [LeafM.toks, carouselToks, LeafM.slots, cntT_append, cntT_replicate,
      cntT_flatMap carImage (fun _ => 0) (f :: r) cnt_carImage, cnt_carImage]
    have hz : ∀ l : List Bool, (l.map (fun _ => 0)).sum = 0 := by intro l; induction l <;> simp_all
    cases th <;> simp [o, c, v, ite', carThumb, carIcon, cntT_replicate, hz]

end Gomjml.Leaves
