import Gomjml.Core.Lengths
import Driver.PassP
/-! driver sub-protocol `len <what> <hex text>`: `fields` → the fields (hex, comma separated; `-` for none);
    `px` / `bw` → `<neg> <mant> <frac>` or `none`; `hsp` → `<neg> <mant> <frac> <neg> <mant> <frac>`, `reject` (not one to four
    values) or `none` (a value outside the modelled number grammar); `sp` → `empty` / `reject` / `none` / four values; `img` → `zero` / `none` / the pair -/
open Gomjml.Lengths

namespace Driver.LenP

def showDec (d : Dec) : String := s!"{if d.neg then 1 else 0} {d.mant} {d.frac}"

def handle (args : List String) : String :=
  match args with
  | what :: rest =>
    let s : List UInt8 := match rest with
      | [h] => (Driver.HtmlP.unhex h).toList
      | _ => []
    match what with
    | "fields" =>
      let fs := fields s
      if fs.isEmpty then "-" else ",".intercalate (fs.map Driver.PassP.hexOfBytes)
    | "px" => match parsePixel s with | some d => showDec d | none => "none"
    | "bw" => match borderField s with | some d => showDec d | none => "none"
    | "hsp" =>
      match hsel (fields s) with
      | none => "reject"
      | some _ => match hspacing s with | some (a, b) => showDec a ++ " " ++ showDec b | none => "none"
    | "sp" =>
      match spacing s with
      | .empty => "empty"
      | .reject => "reject"
      | .outside => "none"
      | .ok t r b l => " ".intercalate [showDec t, showDec r, showDec b, showDec l]
    | "img" =>
      match imageShorthand s with
      | .zero => "zero"
      | .outside => "none"
      | .pair l r => showDec l ++ " " ++ showDec r
    | _ => "bad-request"
  | _ => "bad-request"

end Driver.LenP
