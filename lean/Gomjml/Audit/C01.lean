import Gomjml.Props.C01
#print axioms Gomjml.Props.C01.C01_lifting
#print axioms Gomjml.Props.C01.C01_composition
#print axioms Gomjml.Props.C01.C01_merge_stable
#print axioms Gomjml.Props.C01.canon_attrs_perm
#print axioms Gomjml.Props.C01.canon_attrs_order_irrelevant
#print axioms Gomjml.Props.C01.canon_decls_perm
