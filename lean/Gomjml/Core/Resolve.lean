/-! Attribute resolution (`mjml/components/base.go`, `mjml/globals/attributes.go`) — C09.

Sources of a value for (element, attribute), each possibly absent; the empty string counts as absent, as in the code:
own attribute, the mj-class definitions the element lists (merged: a later class overrides an earlier one), the
`mj-attributes` default for the tag, the `mj-all` default, the component's built-in default. -/
namespace Gomjml.Resolve

structure Sources where
  own : String
  classes : List (Option String)     -- per listed mj-class, in list order: the value that class defines for the attribute
  tag : Option String                -- mj-attributes <tag attr=…/>   (none = not defined)
  all : Option String                -- mj-all
  builtin : String
deriving Repr, DecidableEq

/-- `NewBaseComponent`'s merge of the class definitions: the last class that DEFINES the attribute wins (even with "") -/
def classValue (cs : List (Option String)) : String :=
  match cs.reverse.find? Option.isSome with
  | some (some v) => v
  | _ => ""

/-- `GlobalAttributes.GetGlobalAttribute`: the tag default if defined (even empty), else mj-all -/
def globalValue (s : Sources) : String :=
  match s.tag with
  | some v => v
  | none => s.all.getD ""

/-- **Spec**: the highest-priority non-empty candidate -/
def winner (s : Sources) : String :=
  ([s.own, classValue s.classes, globalValue s, s.builtin].find? (· ≠ "")).getD ""

/-- `GetAttributeWithDefault` / `GetAttributeFast` -/
def accFull (s : Sources) : String :=
  if s.own ≠ "" then s.own
  else if classValue s.classes ≠ "" then classValue s.classes
  else if globalValue s ≠ "" then globalValue s
  else s.builtin

/-- a reduced accessor of older code (no longer used by `BaseComponent.GetAttribute`, which consults mj-attributes now):
    element, mj-class, nothing else -/
def accNoGlobal (s : Sources) : String :=
  if s.own ≠ "" then s.own else classValue s.classes

/-- `Node.GetAttribute` -/
def accRaw (s : Sources) : String := s.own

theorem accFull_eq_winner (s : Sources) : accFull s = winner s := by
  unfold accFull winner
  by_cases h1 : s.own = ""
  · by_cases h2 : classValue s.classes = ""
    · by_cases h3 : globalValue s = ""
      · by_cases h4 : s.builtin = "" <;> simp [h1, h2, h3, h4, List.find?]
      · simp [h1, h2, h3, List.find?]
    · simp [h1, h2, List.find?]
  · simp [h1, List.find?]

/-- `BaseComponent.GetWrittenAttribute`: everything the author can write (element, mj-class, mj-attributes); the caller
    falls back to the built-in default itself -/
def accWritten (s : Sources) : String :=
  if s.own ≠ "" then s.own
  else if classValue s.classes ≠ "" then classValue s.classes
  else globalValue s

/-- a written-attribute read followed by the caller's fall-back to the built-in default is the full resolution -/
theorem accWritten_then_default (s : Sources) :
    (if accWritten s ≠ "" then accWritten s else s.builtin) = winner s := by
  rw [← accFull_eq_winner]
  unfold accWritten accFull
  by_cases h1 : s.own = "" <;> by_cases h2 : classValue s.classes = "" <;> by_cases h3 : globalValue s = "" <;>
    simp [h1, h2, h3]

/-- the reduced accessors agree with the Spec exactly when the sources they skip are silent -/
theorem accNoGlobal_eq_winner (s : Sources) (h : globalValue s = "" ∧ s.builtin = "") : accNoGlobal s = winner s := by
  unfold accNoGlobal winner
  by_cases h1 : s.own = "" <;> by_cases h2 : classValue s.classes = "" <;> simp [h1, h2, h.1, h.2, List.find?]

theorem accRaw_eq_winner (s : Sources) (h : classValue s.classes = "" ∧ globalValue s = "" ∧ s.builtin = "") :
    accRaw s = winner s := by
  unfold accRaw winner
  by_cases h1 : s.own = "" <;> simp [h1, h.1, h.2.1, h.2.2, List.find?]

/-- moving the winning value to any source while the winner stays the same does not change what a full resolver returns -/
theorem full_depends_on_winner_only (s s' : Sources) (h : winner s = winner s') : accFull s = accFull s' := by
  rw [accFull_eq_winner, accFull_eq_winner, h]

/-- … which is false for the reduced accessors: same winner, different result (kernel-checked) -/
example : winner ⟨"", [], some "red", none, ""⟩ = winner ⟨"red", [], none, none, ""⟩ ∧
          accNoGlobal ⟨"", [], some "red", none, ""⟩ ≠ accNoGlobal ⟨"red", [], none, none, ""⟩ := by decide

/-! ### css-class: the one attribute whose class definitions are joined, not overridden -/

/-- `NewBaseComponent`'s merge for css-class: the values of all listed classes that define it, in list order, joined by a blank -/
def cssClassValue (cs : List (Option String)) : String := " ".intercalate (cs.filterMap id)

/-- `GetCSSClass` (since 6bdfa39: `GetWrittenAttribute("css-class")`; css-class has no built-in default) -/
def accCssClass (s : Sources) : String :=
  if s.own ≠ "" then s.own
  else if cssClassValue s.classes ≠ "" then cssClassValue s.classes
  else globalValue s

/-- Spec for css-class: the same precedence as every other attribute, with the joined class values at the mj-class level -/
def cssWinner (s : Sources) : String :=
  ([s.own, cssClassValue s.classes, globalValue s].find? (· ≠ "")).getD ""

theorem accCssClass_eq_winner (s : Sources) : accCssClass s = cssWinner s := by
  unfold accCssClass cssWinner
  by_cases h1 : s.own = ""
  · by_cases h2 : cssClassValue s.classes = ""
    · by_cases h3 : globalValue s = "" <;> simp [h1, h2, h3, List.find?]
    · simp [h1, h2, List.find?]
  · simp [h1, List.find?]

/-- css-class reaches the element from mj-attributes too: with nothing written on the element or in its classes, the tag
    default (else mj-all) is what it gets — the statement 6bdfa39 made true -/
theorem accCssClass_global (s : Sources) (h1 : s.own = "") (h2 : s.classes = []) : accCssClass s = globalValue s := by
  simp [accCssClass, h1, h2, cssClassValue]

end Gomjml.Resolve
