// hx: the correspondence / search harness (E4).  Built with -tags verif against /repo's current tree; calls the
// real packages in-process.  `hx <property> -tier quick|thorough -seed N -out result.json [-replay file]`.
package main

import (
	"flag"
	"fmt"
	"os"
	"runtime/debug"
	"strconv"
	"time"
)

type runFn func(r *Result, tier string, seed int64, replay string)

var props = map[string]runFn{}

func register(id string, f runFn) { props[id] = f }

func main() {
	if len(os.Args) < 2 {
		fmt.Fprintln(os.Stderr, "usage: hx <property> [-tier T] [-seed N] [-out F] [-replay F]")
		os.Exit(2)
	}
	id := os.Args[1]
	if id == "cachechild" {
		cacheChild()
		return
	}
	if id == "parkchild" {
		parkChild()
		return
	}
	if id == "apichild" {
		apiChild()
		return
	}
	fs := flag.NewFlagSet("hx", flag.ExitOnError)
	tier := fs.String("tier", "quick", "quick|thorough")
	seed := fs.Int64("seed", 1, "PRNG seed")
	out := fs.String("out", "-", "result file")
	replay := fs.String("replay", "", "replay file")
	fs.Parse(os.Args[2:])
	if s := os.Getenv("VERIF_SEED"); s != "" && !flagSet(fs, "seed") {
		if v, err := strconv.ParseInt(s, 10, 64); err == nil {
			*seed = v
		}
	}
	debug.SetMemoryLimit(12 << 30)
	f, ok := props[id]
	if !ok {
		fmt.Fprintln(os.Stderr, "hx: unknown property", id)
		os.Exit(2)
	}
	res := newResult(id, *tier, *seed)
	t0 := time.Now()
	f(res, *tier, *seed, *replay)
	res.Note("hx wall %.1fs", time.Since(t0).Seconds())
	res.write(*out)
}

func flagSet(fs *flag.FlagSet, name string) bool {
	found := false
	fs.Visit(func(f *flag.Flag) {
		if f.Name == name {
			found = true
		}
	})
	return found
}
