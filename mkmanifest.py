#!/usr/bin/env python3
"""Regenerates MANIFEST.json from checks_config.py (run after adding or changing a check)."""
import json, subprocess, sys, os
sys.path.insert(0, os.path.dirname(os.path.abspath(__file__)))
from checks_config import CHECKS
ALL = [f"C{i:02d}" for i in range(1, 21)]
NA = {}
try:
    from checks_config import NOT_APPLICABLE as NA
except ImportError:
    pass
hooks = []
try:
    out = subprocess.run(["git", "-C", "/repo", "log", "--format=%H %s"], capture_output=True, text=True).stdout
    hooks = [l.split()[0] for l in out.splitlines() if l.split(" ", 1)[1].startswith("verif:")]
except Exception:
    pass
m = {
    "version": 1,
    "setup_cmd": "./setup.sh",
    "hooks": {"guard": "verif", "enable": "go build -tags verif (harness module: replace github.com/preslavrachev/gomjml => /repo)",
              "baseline_off_cmd": "cd /repo && GOFLAGS=-mod=mod GOPROXY=off go test -vet=off -count=1 ./...",
              "source_commits": hooks, "add_only": True},
    "engines": [
        {"name": "lean", "path": "lean/", "serves_properties": sorted(CHECKS), "kind_free_text": "Lean 4 library: Core (models+lemmas), Props (property theorems), Gen (tables regenerated from /repo by factx), Audit (#print axioms); Driver = compiled line-protocol model driver"},
        {"name": "factx", "path": "harness/cmd/factx", "serves_properties": sorted(CHECKS), "kind_free_text": "typed Go fact extractor -> Lean tables"},
        {"name": "hx", "path": "harness/cmd/hx", "serves_properties": sorted(CHECKS), "kind_free_text": "Go correspondence + Spec-oracle search harness (build tag verif)"},
    ],
    "checks": [],
    "not_applicable": [],
    "notes": "One orchestrator: ./check Cnn --tier quick|thorough. Known findings: known_findings.txt. See DESIGN.md.",
}
for pid in ALL:
    if pid in CHECKS:
        c = CHECKS[pid]
        m["checks"].append({
            "property_id": pid,
            "quick_cmd": f"./check {pid} --tier quick",
            "thorough_cmd": f"./check {pid} --tier thorough",
            "evidence_file": f"/verif/evidence/{pid}.json",
            "replay_cmd_template": f"./check {pid} --replay {{path}}",
            "engine": "lean+factx+hx",
            "level_claimed": {"category": c.get("level", "proof"), "text": c.get("proved_vs_tested", ""), "design_ref": f"DESIGN.md §6 {pid}"},
            "level_note": "; ".join(c.get("assumptions", []) + c.get("trusted", [])),
            "technique": c.get("technique", "Lean 4 theorems over a hand model + regenerated fact tables (factx) + model/implementation correspondence (hx)"),
        })
    else:
        m["not_applicable"].append({"property_id": pid, "reason": NA.get(pid, "check not built yet (work in progress; planned in DESIGN.md §6)")})
json.dump(m, open(os.path.join(os.path.dirname(os.path.abspath(__file__)), "MANIFEST.json"), "w"), indent=1)
print("checks:", [c["property_id"] for c in m["checks"]])
