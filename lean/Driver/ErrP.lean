import Gomjml.Core.ErrorValue
import Driver.TagP
/-! driver sub-protocol `errval <report>…`: report = `<hex tag>:<hex attr>:<line>` (`-` = empty hex).
    Answer: `none`, or `<number of details> <hex of the Error() text>` -/
open Gomjml.ErrorValue

namespace Driver.ErrP
open Driver.TagP (unhexS hexOfString)

def un (h : String) : String := if h == "-" then "" else unhexS h

def report (s : String) : Option Report :=
  match s.splitOn ":" with
  | [t, a, l] => l.toInt?.map fun n => (un t, un a, n)
  | _ => none

def handle (args : List String) : String :=
  match collect (args.filterMap report) with
  | none => "none"
  | some e => s!"{e.details.length} {hexOfString (text e)}"

end Driver.ErrP
