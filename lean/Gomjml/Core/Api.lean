namespace Gomjml.Api
/-! Model of the public entry points (`mjml/render.go`) as a machine over the one piece of process-wide state that
    rendering reads: the global attribute store `g` (`globals.instance`).  C06(b) / C08.

    `attrs d` = the store built from document `d`'s own head.  A component tree captures the mj-class definitions when it is
    built (`NewBaseComponent` resolves `mj-class` at construction) and reads tag / mj-all defaults when it is rendered
    (`GetAttributeWithDefault`), so its HTML is a function `html d gBuild gRender`. -/

abbrev Doc := Nat
abbrev G := Nat
abbrev Html := Nat
abbrev Err := Nat

structure World where
  parse : Doc → Except Err Unit          -- does the document parse (the AST is identified with the document)
  attrs : Doc → G
  html : Doc → G → G → List G → Html     -- document, store at build time, store at render time, and the stores that were
                                         --   in force at the earlier renderings of THIS tree (components memoise resolved
                                         --   values and accumulate state from one Render to the next)
  validation : Doc → Option Err          -- invalid-attribute error reported while building the tree
  renderErr : Doc → Option Err           -- the document parses but rendering its body fails (mj-carousel without images, …)
  reorder : Html → Html                  -- normalizeGroupColumnClassOrder

structure St where
  g : Option G                           -- none = nothing compiled yet in this process
  trees : List (Doc × G × List G)        -- component trees created by NewFromAST: (document, store at build, stores at earlier renders)

inductive Call
  | render (d : Doc)                     -- Render
  | renderWithAST (d : Doc)              -- RenderWithAST
  | renderFromAST (d : Doc)              -- RenderFromAST (ParseMJML d)
  | newFromAST (d : Doc)                 -- NewFromAST (ParseMJML d): appends a tree
  | renderTree (k : Nat)                 -- RenderComponentString (k-th tree)
deriving Repr

/-- the three result shapes of C06(b): HTML and no error; HTML with a validation error; no HTML and an ordinary error -/
inductive Res
  | ok (h : Html)
  | okValidation (h : Html) (e : Err)
  | fail (e : Err)
  | noSuchTree
deriving Repr, DecidableEq

def finish (w : World) (d : Doc) (h : Html) : Res :=
  match w.renderErr d with
  | some e => .fail e
  | none =>
    match w.validation d with
    | none => .ok h
    | some e => .okValidation h e

def step (w : World) (s : St) : Call → St × Res
  | .render d =>
    match w.parse d with
    | .error e => (s, .fail e)
    | .ok _ => ({ s with g := some (w.attrs d) }, finish w d (w.reorder (w.html d (w.attrs d) (w.attrs d) [])))
  | .renderWithAST d =>
    match w.parse d with
    | .error e => (s, .fail e)
    | .ok _ => ({ s with g := some (w.attrs d) }, finish w d (w.html d (w.attrs d) (w.attrs d) []))
  | .renderFromAST d =>
    match w.parse d with
    | .error e => (s, .fail e)
    | .ok _ => ({ s with g := some (w.attrs d) }, finish w d (w.html d (w.attrs d) (w.attrs d) []))
  | .newFromAST d =>
    match w.parse d with
    | .error e => (s, .fail e)
    | .ok _ => ({ g := some (w.attrs d), trees := s.trees ++ [(d, w.attrs d, [])] }, .ok 0)
  | .renderTree k =>
    match s.trees[k]? with
    | none => (s, .noSuchTree)
    | some (d, gb, seen) =>                                    -- reads whatever the store holds NOW
      match w.renderErr d with
      | some e => (s, .fail e)
      | none => ({ s with trees := s.trees.set k (d, gb, seen ++ [s.g.getD 0]) }, .ok (w.html d gb (s.g.getD 0) seen))

def run (w : World) (s : St) : List Call → St × List Res
  | [] => (s, [])
  | c :: r => let (s1, o) := step w s c; let (s2, os) := run w s1 r; (s2, o :: os)

def init : St := ⟨none, []⟩

/-- what the call returns when it is the first thing a fresh process does -/
def fresh (w : World) (c : Call) : Res := (step w init c).2

/-- the one-shot entry points and RenderFromAST do not look at the state at all -/
theorem step_state_independent (w : World) (s s' : St) (c : Call) (h : ∀ k, c ≠ .renderTree k) :
    (step w s c).2 = (step w s' c).2 := by
  cases c with
  | render d => simp only [step]; cases w.parse d <;> rfl
  | renderWithAST d => simp only [step]; cases w.parse d <;> rfl
  | renderFromAST d => simp only [step]; cases w.parse d <;> rfl
  | newFromAST d => simp only [step]; cases w.parse d <;> rfl
  | renderTree k => exact absurd rfl (h k)

/-- **C08 (history independence)** for Render / RenderWithAST / RenderFromAST / NewFromAST after any history -/
theorem history_independent (w : World) (hist : List Call) (c : Call) (h : ∀ k, c ≠ .renderTree k) :
    (step w (run w init hist).1 c).2 = fresh w c := step_state_independent w _ _ c h

/-- **C08 (paths agree)**: the one-shot call is the class-order rewrite of rendering from a pre-parsed tree, and
    RenderWithAST is exactly rendering from a pre-parsed tree -/
theorem paths_agree (w : World) (s s' : St) (d : Doc) (hv : w.validation d = none) (hp : w.parse d = .ok ()) :
    (step w s (.render d)).2 = (match (step w s' (.renderFromAST d)).2 with | .ok h => .ok (w.reorder h) | r => r) ∧
    (step w s (.renderWithAST d)).2 = (step w s' (.renderFromAST d)).2 := by
  cases hr : w.renderErr d <;> simp [step, hp, finish, hv, hr]

/-- the step-by-step path, taken without anything in between, yields the same HTML as RenderFromAST -/
theorem new_then_render (w : World) (s : St) (d : Doc) (hp : w.parse d = .ok ()) (hr : w.renderErr d = none) :
    let s1 := (step w s (.newFromAST d)).1
    (step w s1 (.renderTree s.trees.length)).2 = .ok (w.html d (w.attrs d) (w.attrs d) []) := by
  simp [step, hp, hr]

/-- a tree rendered later depends on the store left by whatever was compiled in between … -/
theorem tree_reads_current_store (w : World) (s : St) (k : Nat) (d : Doc) (gb : G) (seen : List G) (hk : s.trees[k]? = some (d, gb, seen))
    (hr : w.renderErr d = none) :
    (step w s (.renderTree k)).2 = .ok (w.html d gb (s.g.getD 0) seen) := by
  simp [step, hk, hr]

/-- … so it equals the fresh result whenever the store still holds this document's own attributes -/
theorem tree_ok_if_store_own (w : World) (s : St) (k : Nat) (d : Doc) (seen : List G) (hk : s.trees[k]? = some (d, w.attrs d, seen))
    (hg : s.g = some (w.attrs d)) (hstateless : w.html d (w.attrs d) (w.attrs d) seen = w.html d (w.attrs d) (w.attrs d) [])
    (hr : w.renderErr d = none) :
    (step w s (.renderTree k)).2 = .ok (w.html d (w.attrs d) (w.attrs d) []) := by
  simp [step, hk, hg, hstateless, hr]

/-- **C06(b) trichotomy**: every call returns exactly one of the three result shapes, and a validation error never
    changes the HTML -/
theorem result_shapes (w : World) (s : St) (c : Call) (h : ∀ k, c ≠ .renderTree k) :
    (∃ html, (step w s c).2 = .ok html) ∨ (∃ html e, (step w s c).2 = .okValidation html e) ∨ (∃ e, (step w s c).2 = .fail e) := by
  cases c with
  | render d => simp only [step, finish]; cases w.parse d <;> cases w.renderErr d <;> cases w.validation d <;> simp
  | renderWithAST d => simp only [step, finish]; cases w.parse d <;> cases w.renderErr d <;> cases w.validation d <;> simp
  | renderFromAST d => simp only [step, finish]; cases w.parse d <;> cases w.renderErr d <;> cases w.validation d <;> simp
  | newFromAST d => simp only [step]; cases w.parse d <;> simp
  | renderTree k => exact absurd rfl (h k)

theorem validation_keeps_html (w w' : World) (s : St) (d : Doc) (hp : w.parse d = .ok ())
    (hsame : w'.parse = w.parse ∧ w'.attrs = w.attrs ∧ w'.html = w.html ∧ w'.reorder = w.reorder ∧ w'.renderErr = w.renderErr) (e : Err)
    (hr : w.renderErr d = none) (hv : w.validation d = some e) (hv' : w'.validation d = none) :
    ∃ html, (step w s (.render d)).2 = .okValidation html e ∧ (step w' s (.render d)).2 = .ok html := by
  obtain ⟨h1, h2, h3, h4, h5⟩ := hsame
  simp [step, hp, finish, hv, hv', h1, h2, h3, h4, h5, hr]

end Gomjml.Api
