import Gomjml.Props.C04
#print axioms Gomjml.Props.C04.C04_once
#print axioms Gomjml.Props.C04.C04_visible_full
#print axioms Gomjml.Props.C04.C04_chardata_roundtrip
#print axioms Gomjml.Props.C04.C04_chardata_never_markup
#print axioms Gomjml.Props.C04.C04_visible_components
#print axioms Gomjml.Props.C04.C04_once_components
#print axioms Gomjml.Props.C04.C04_inline_roundtrip
#print axioms Gomjml.Props.C04.C04_inline_model_is_core
#print axioms Gomjml.Props.C04.C04_inline_content_roundtrip
#print axioms Gomjml.Props.C04.C04_inline_value_counterexample
#print axioms Gomjml.Props.C04.C04_text_keeps_ink
#print axioms Gomjml.Props.C04.C04_text_whitespace
#print axioms Gomjml.Props.C04.C04_void_normaliser_keeps_text
#print axioms Gomjml.Props.C04.C04_void_normaliser_respells_only
#print axioms Gomjml.Props.C04.C04_text_content_delivered
#print axioms Gomjml.Props.C04.C04_text_content_delivered_behind_cdata
#print axioms Gomjml.Props.C04.C04_text_end_to_end
