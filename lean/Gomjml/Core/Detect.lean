/-! # Head feature detection (`checkChildrenForCondition` and the `has…Components` predicates of `mjml/render.go`)

The head decides which component CSS to write by searching the component tree.  The search is the recursive existential
`checkChildrenForCondition`: it looks at the children of a component only when the component's Go type is one of the cases of
its type switch.  Model: a rose tree of components (Go type, tag, children), the search, and what it reaches. -/
namespace Gomjml.Detect

inductive CT
  | node (ty : String) (tag : String) (kids : List CT)

def CT.ty : CT → String | .node ty _ _ => ty
def CT.tag : CT → String | .node _ tag _ => tag
def CT.kids : CT → List CT | .node _ _ kids => kids

mutual
/-- `checkChildrenForCondition(component, condition)`: `D` = the types of the type switch -/
def search (D : String → Bool) (p : CT → Bool) : CT → Bool
  | .node ty _ kids => D ty && searchList D p kids
def searchList (D : String → Bool) (p : CT → Bool) : List CT → Bool
  | [] => false
  | k :: r => (p k || search D p k) || searchList D p r
end

mutual
/-- the components the search looks at: children of components of a descending type, transitively -/
def reach (D : String → Bool) : CT → List CT
  | .node ty _ kids => if D ty then reachList D kids else []
def reachList (D : String → Bool) : List CT → List CT
  | [] => []
  | k :: r => k :: (reach D k ++ reachList D r)
end

mutual
/-- all proper descendants -/
def desc : CT → List CT
  | .node _ _ kids => descList kids
def descList : List CT → List CT
  | [] => []
  | k :: r => k :: (desc k ++ descList r)
end

mutual
/-- every component that has children is of a descending type -/
def covered (D : String → Bool) : CT → Bool
  | .node ty _ kids => (kids.isEmpty || D ty) && coveredList D kids
def coveredList (D : String → Bool) : List CT → Bool
  | [] => true
  | k :: r => covered D k && coveredList D r
end

mutual
/-- **the search finds a component iff one of the components it reaches satisfies the condition** -/
theorem search_eq_reach (D : String → Bool) (p : CT → Bool) : ∀ t : CT, search D p t = (reach D t).any p
  | .node ty tag kids => by
    simp only [search, reach]
    cases hD : D ty
    · simp
    · simp only [Bool.true_and, if_true]
      exact searchList_eq_reach D p kids
theorem searchList_eq_reach (D : String → Bool) (p : CT → Bool) : ∀ l : List CT, searchList D p l = (reachList D l).any p
  | [] => rfl
  | k :: r => by
    simp only [searchList, reachList, List.any_cons, List.any_append]
    rw [search_eq_reach D p k, searchList_eq_reach D p r]
    simp [Bool.or_assoc]
end

mutual
/-- when every component with children is of a descending type, the search reaches every descendant -/
theorem reach_eq_desc (D : String → Bool) : ∀ t : CT, covered D t = true → reach D t = desc t
  | .node ty tag kids => by
    intro h
    simp only [covered, Bool.and_eq_true, Bool.or_eq_true] at h
    simp only [reach, desc]
    cases kids with
    | nil => simp [reachList, descList]
    | cons k r =>
      have hD : D ty = true := by simpa using h.1
      simp only [hD, if_true]
      exact reachList_eq_desc D (k :: r) h.2
theorem reachList_eq_desc (D : String → Bool) : ∀ l : List CT, coveredList D l = true → reachList D l = descList l
  | [] => fun _ => rfl
  | k :: r => by
    intro h
    simp only [coveredList, Bool.and_eq_true] at h
    simp only [reachList, descList]
    rw [reach_eq_desc D k h.1, reachList_eq_desc D r h.2]
end

/-- **hence: present exactly when such a component is in the tree** -/
theorem search_iff_exists (D : String → Bool) (p : CT → Bool) (t : CT) (h : covered D t = true) :
    search D p t = true ↔ ∃ n ∈ desc t, p n = true := by
  rw [search_eq_reach, reach_eq_desc D t h, List.any_eq_true]

end Gomjml.Detect
