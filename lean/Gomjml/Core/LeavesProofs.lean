import Gomjml.Core.Leaves
/-! Every content component is inert for the three Spec checkers, whatever its parameters and however many children it has;
    and it contains exactly its author-content slots. -/
namespace Gomjml.Leaves
open Gomjml.Spec Gomjml.Expand

section
variable {step : VS → GTok → Except String VS}

/-- concrete opening, inert middle, concrete closing — evaluated once per checker (the visibility checker keeps no stack) -/
theorem sandwich3 (hc : IsChecker step) (pre mid post : List GTok) (Ss Sm : List String)
    (h1 : runE stdStep ⟨0, []⟩ pre = .ok ⟨0, Ss⟩) (h1' : runE stdStep ⟨0, Ss⟩ post = .ok ⟨0, []⟩)
    (h2 : runE msoStep ⟨0, []⟩ pre = .ok ⟨0, Sm⟩) (h2' : runE msoStep ⟨0, Sm⟩ post = .ok ⟨0, []⟩)
    (h3 : runE visStep ⟨0, []⟩ pre = .ok ⟨0, []⟩) (h3' : runE visStep ⟨0, []⟩ post = .ok ⟨0, []⟩)
    (hmid : Moves step [] [] mid) : Moves step [] [] (pre ++ mid ++ post) := by
  rcases hc with rfl | rfl | rfl
  · exact movesM_append (movesM_append (movesM_of_closed std_framed 0 0 [] Ss _ h1) (movesM_base hmid Ss)) (movesM_of_closed std_framed 0 0 Ss [] _ h1')
  · exact movesM_append (movesM_append (movesM_of_closed mso_framed 0 0 [] Sm _ h2) (movesM_base hmid Sm)) (movesM_of_closed mso_framed 0 0 Sm [] _ h2')
  · exact movesM_append (movesM_append (movesM_of_closed vis_framed 0 0 [] [] _ h3) hmid) (movesM_of_closed vis_framed 0 0 [] [] _ h3')

/-! ### the simple leaves: concrete after case analysis on their Boolean parameters -/

theorem text_moves (hc : IsChecker step) (cn : Bool) : Moves step [] [] (textToks cn) := by
  cases cn <;> exact movesM_closed3 hc 0 0 [] [] _ (by rfl) (by rfl) (by rfl)

theorem button_moves (hc : IsChecker step) (h cn : Bool) : Moves step [] [] (buttonToks h cn) := by
  cases h <;> cases cn <;> exact movesM_closed3 hc 0 0 [] [] _ (by rfl) (by rfl) (by rfl)

theorem image_moves (hc : IsChecker step) (h : Bool) : Moves step [] [] (imageToks h) := by
  cases h <;> exact movesM_closed3 hc 0 0 [] [] _ (by rfl) (by rfl) (by rfl)

theorem divider_moves (hc : IsChecker step) : Moves step [] [] dividerToks := movesM_closed3 hc 0 0 [] [] _ (by rfl) (by rfl) (by rfl)
theorem spacer_moves (hc : IsChecker step) : Moves step [] [] spacerToks := movesM_closed3 hc 0 0 [] [] _ (by rfl) (by rfl) (by rfl)

theorem table_moves (hc : IsChecker step) (rows : Nat) (tx : Bool) : Moves step [] [] (tableToks rows tx) := by
  unfold tableToks
  have hrow : Moves step [] [] tableRow := movesM_closed3 hc 0 0 _ _ _ (by rfl) (by rfl) (by rfl)
  apply sandwich3 hc _ _ _ ["table", "td", "tr"] ["table", "td", "tr"] (by rfl) (by rfl) (by rfl) (by rfl) (by rfl) (by rfl)
  split
  · cases tx
    · exact movesM_nil _ _ _
    · exact movesM_closed3 hc 0 0 _ _ _ (by rfl) (by rfl) (by rfl)
  · exact movesM_replicate 0 [] _ rows hrow

/-! ### mj-social -/

theorem socElH_moves (hc : IsChecker step) (e : SocEl) : Moves step [] [] (socElH e) := by
  obtain ⟨ic, h, tx⟩ := e
  cases ic <;> cases h <;> cases tx <;> exact movesM_closed3 hc 0 0 [] [] _ (by rfl) (by rfl) (by rfl)

theorem socElV_moves (hc : IsChecker step) (e : SocEl) : Moves step [] [] (socElV e) := by
  obtain ⟨ic, h, tx⟩ := e
  cases ic <;> cases h <;> cases tx <;> exact movesM_closed3 hc 0 0 [] [] _ (by rfl) (by rfl) (by rfl)

/-- the separator closes the Outlook cell that is open and opens the next one: with a `td` on top, nothing changes -/
theorem socSep_moves (hc : IsChecker step) : Moves step ["td"] ["td"] [.co, c "td", o "td", .cc] :=
  movesM_closed3 hc 0 0 _ _ _ (by rfl) (by rfl) (by rfl)

theorem socLoop_moves (hc : IsChecker step) : ∀ els : List SocEl, Moves step ["td"] ["td"] (socLoop els)
  | [] => movesM_nil _ _ _
  | [e] => by simpa [socLoop] using movesM_base (socElH_moves hc e) ["td"]
  | e :: e' :: r => by
    have ih := socLoop_moves hc (e' :: r)
    simp only [socLoop]
    exact movesM_append (movesM_append (movesM_base (socElH_moves hc e) ["td"]) (socSep_moves hc)) ih

theorem social_std (vm : Bool) (els : List SocEl) : Moves stdStep [] [] (socialToks vm els) := by
  have hc : IsChecker stdStep := Or.inl rfl
  unfold socialToks
  cases vm
  · simp only [Bool.false_eq_true, if_false]
    cases els with
    | nil => exact movesM_of_closed std_framed 0 0 [] [] _ (by rfl)
    | cons e r =>
      simp only [List.isEmpty_cons, Bool.false_eq_true, if_false]
      have hpre : Moves stdStep [] ["td", "tr"] ([o "tr", o "td"] ++ [.co, o "table", o "tr", o "td", .cc]) :=
        movesM_of_closed std_framed 0 0 _ _ _ (by rfl)
      have hpost : Moves stdStep ["td", "tr"] [] ([.co, c "td", c "tr", c "table", .cc] ++ [c "td", c "tr"]) :=
        movesM_of_closed std_framed 0 0 _ _ _ (by rfl)
      have hmid := movesM_lift (socLoop_moves hc (e :: r)) ["tr"]
      have := movesM_append (movesM_append hpre hmid) hpost
      simpa [List.append_assoc] using this
  · simp only [if_true]
    have hpre : Moves stdStep [] ["tbody", "table", "td", "tr"] ([o "tr", o "td"] ++ [o "table", o "tbody"]) :=
      movesM_of_closed std_framed 0 0 _ _ _ (by rfl)
    have hpost : Moves stdStep ["tbody", "table", "td", "tr"] [] ([c "tbody", c "table"] ++ [c "td", c "tr"]) :=
      movesM_of_closed std_framed 0 0 _ _ _ (by rfl)
    have hmid := movesM_flatMap 0 ["tbody", "table", "td", "tr"] socElV els (fun e _ => movesM_base (socElV_moves hc e) _)
    have := movesM_append (movesM_append hpre hmid) hpost
    simpa [List.append_assoc] using this

theorem social_mso (vm : Bool) (els : List SocEl) : Moves msoStep [] [] (socialToks vm els) := by
  have hc : IsChecker msoStep := Or.inr (Or.inl rfl)
  unfold socialToks
  cases vm
  · simp only [Bool.false_eq_true, if_false]
    cases els with
    | nil => exact movesM_of_closed mso_framed 0 0 [] [] _ (by rfl)
    | cons e r =>
      simp only [List.isEmpty_cons, Bool.false_eq_true, if_false]
      have hpre : Moves msoStep [] ["td", "tr", "table", "td", "tr"] ([o "tr", o "td"] ++ [.co, o "table", o "tr", o "td", .cc]) :=
        movesM_of_closed mso_framed 0 0 _ _ _ (by rfl)
      have hpost : Moves msoStep ["td", "tr", "table", "td", "tr"] [] ([.co, c "td", c "tr", c "table", .cc] ++ [c "td", c "tr"]) :=
        movesM_of_closed mso_framed 0 0 _ _ _ (by rfl)
      have hmid := movesM_lift (socLoop_moves hc (e :: r)) ["tr", "table", "td", "tr"]
      have := movesM_append (movesM_append hpre hmid) hpost
      simpa [List.append_assoc] using this
  · simp only [if_true]
    have hpre : Moves msoStep [] ["tbody", "table", "td", "tr"] ([o "tr", o "td"] ++ [o "table", o "tbody"]) :=
      movesM_of_closed mso_framed 0 0 _ _ _ (by rfl)
    have hpost : Moves msoStep ["tbody", "table", "td", "tr"] [] ([c "tbody", c "table"] ++ [c "td", c "tr"]) :=
      movesM_of_closed mso_framed 0 0 _ _ _ (by rfl)
    have hmid := movesM_flatMap 0 ["tbody", "table", "td", "tr"] socElV els (fun e _ => movesM_base (socElV_moves hc e) _)
    have := movesM_append (movesM_append hpre hmid) hpost
    simpa [List.append_assoc] using this

theorem socLoop_vis : ∀ l : List SocEl, Moves visStep [] [] (socLoop l)
  | [] => movesM_nil _ _ _
  | [e] => by simpa [socLoop] using socElH_moves (Or.inr (Or.inr rfl)) e
  | e :: e' :: r => by
    have ih := socLoop_vis (e' :: r)
    simp only [socLoop]
    exact movesM_append (movesM_append (socElH_moves (Or.inr (Or.inr rfl)) e) (movesM_of_closed vis_framed 0 0 [] [] _ (by rfl))) ih

theorem social_vis (vm : Bool) (els : List SocEl) : Moves visStep [] [] (socialToks vm els) := by
  have hc : IsChecker visStep := Or.inr (Or.inr rfl)
  unfold socialToks
  cases vm
  · simp only [Bool.false_eq_true, if_false]
    cases els with
    | nil => exact movesM_of_closed vis_framed 0 0 [] [] _ (by rfl)
    | cons e r =>
      simp only [List.isEmpty_cons, Bool.false_eq_true, if_false]
      -- the visibility checker keeps no stack: every part is inert on the empty stack; lift the loop from its `td`
      have hpre : Moves visStep [] [] ([o "tr", o "td"] ++ [.co, o "table", o "tr", o "td", .cc]) :=
        movesM_of_closed vis_framed 0 0 _ _ _ (by rfl)
      have hpost : Moves visStep [] [] ([.co, c "td", c "tr", c "table", .cc] ++ [c "td", c "tr"]) :=
        movesM_of_closed vis_framed 0 0 _ _ _ (by rfl)
      have := movesM_append (movesM_append hpre (socLoop_vis (e :: r))) hpost
      simpa [List.append_assoc] using this
  · simp only [if_true]
    have hpre : Moves visStep [] [] ([o "tr", o "td"] ++ [o "table", o "tbody"]) := movesM_of_closed vis_framed 0 0 _ _ _ (by rfl)
    have hpost : Moves visStep [] [] ([c "tbody", c "table"] ++ [c "td", c "tr"]) := movesM_of_closed vis_framed 0 0 _ _ _ (by rfl)
    have hmid := movesM_flatMap 0 [] socElV els (fun e _ => socElV_moves hc e)
    have := movesM_append (movesM_append hpre hmid) hpost
    simpa [List.append_assoc] using this

end

theorem social_inert (vm : Bool) (els : List SocEl) : Inert (socialToks vm els) :=
  ⟨inert_of_moves (social_std vm els), inert_of_moves (social_mso vm els), inert_of_moves (social_vis vm els)⟩

/-! ### mj-navbar -/

section
variable {step : VS → GTok → Except String VS}

theorem navLink_moves (hc : IsChecker step) (cn : Bool) : Moves step [] [] ([o "a"] ++ ite' cn [t] ++ [c "a"]) := by
  cases cn <;> exact movesM_closed3 hc 0 0 [] [] _ (by rfl) (by rfl) (by rfl)

/-- links after the first: each closes the previous Outlook cell and opens its own -/
theorem navLoop_moves (hc : IsChecker step) : ∀ links : List Bool, Moves step ["td"] ["td"] (navLoop false links)
  | [] => movesM_nil _ _ _
  | cn :: r => by
    have ih := navLoop_moves hc r
    simp only [navLoop, Bool.false_eq_true, if_false]
    have hsep : Moves step ["td"] ["td"] [.co, c "td", o "td", .cc] := movesM_closed3 hc 0 0 _ _ _ (by rfl) (by rfl) (by rfl)
    have hl := movesM_base (navLink_moves hc cn) ["td"]
    have := movesM_append (movesM_append hsep hl) ih
    simpa [List.append_assoc] using this

end

/-- for a checker that passes the separator on the empty stack (standard clients skip it, the visibility check keeps no stack)
    the loop over the further links is inert -/
theorem navLoop_flat {step} (hc : IsChecker step) (hf : Framed step)
    (hsep : runE step ⟨0, []⟩ [.co, c "td", o "td", .cc] = .ok ⟨0, []⟩) : ∀ l : List Bool, Moves step [] [] (navLoop false l)
  | [] => movesM_nil _ _ _
  | x :: l => by
    have ih := navLoop_flat hc hf hsep l
    simp only [navLoop, Bool.false_eq_true, if_false]
    have := movesM_append (movesM_append (movesM_of_closed hf 0 0 [] [] [.co, c "td", o "td", .cc] hsep) (navLink_moves hc x)) ih
    simpa [List.append_assoc] using this

theorem hamburger_part (step) (hc : IsChecker step) (hb : Bool) :
    Moves step [] [] (ite' hb [.nco, v "input", .ncc, o "div", o "label", o "span", fill, c "span", o "span", fill, c "span", c "label", c "div"]) := by
  cases hb
  · exact movesM_nil _ _ _
  · exact movesM_closed3 hc 0 0 [] [] _ (by rfl) (by rfl) (by rfl)

/-- the shape of a navbar with at least one link, regrouped: opening up to and including the first link's cell opener, the
    first link, the other links, the closing -/
theorem navbar_shape (hb cn : Bool) (r : List Bool) :
    navbarToks hb (cn :: r) =
      [o "tr", o "td"] ++
      (ite' hb [.nco, v "input", .ncc, o "div", o "label", o "span", fill, c "span", o "span", fill, c "span", c "label", c "div"] ++
      ([o "div", .co, o "table", o "tr", o "td", .cc] ++
      (([o "a"] ++ ite' cn [t] ++ [c "a"]) ++
      (navLoop false r ++
      [.co, c "td", c "tr", c "table", .cc, c "div", c "td", c "tr"])))) := by
  simp [navbarToks, navLoop, List.append_assoc]

theorem navbar_std (hb : Bool) (links : List Bool) : Moves stdStep [] [] (navbarToks hb links) := by
  have hc : IsChecker stdStep := Or.inl rfl
  cases links with
  | nil => cases hb <;> exact movesM_of_closed std_framed 0 0 [] [] _ (by rfl)
  | cons cn r =>
    rw [navbar_shape]
    have h0 : Moves stdStep [] ["td", "tr"] [o "tr", o "td"] := movesM_of_closed std_framed 0 0 _ _ _ (by rfl)
    have h1 := movesM_base (hamburger_part stdStep hc hb) ["td", "tr"]
    have h2 : Moves stdStep ["td", "tr"] ["div", "td", "tr"] [o "div", .co, o "table", o "tr", o "td", .cc] :=
      movesM_of_closed std_framed 0 0 _ _ _ (by rfl)
    have h3 := movesM_base (navLink_moves hc cn) ["div", "td", "tr"]
    -- for a standard client the separators are skipped: the loop is inert (no `td` needed on top)
    have h4 := movesM_base (navLoop_flat (Or.inl rfl) std_framed (by rfl) r) ["div", "td", "tr"]
    have h5 : Moves stdStep ["div", "td", "tr"] [] [.co, c "td", c "tr", c "table", .cc, c "div", c "td", c "tr"] :=
      movesM_of_closed std_framed 0 0 _ _ _ (by rfl)
    exact movesM_append h0 (movesM_append h1 (movesM_append h2 (movesM_append h3 (movesM_append h4 h5))))

theorem navbar_mso (hb : Bool) (links : List Bool) : Moves msoStep [] [] (navbarToks hb links) := by
  have hc : IsChecker msoStep := Or.inr (Or.inl rfl)
  cases links with
  | nil => cases hb <;> exact movesM_of_closed mso_framed 0 0 [] [] _ (by rfl)
  | cons cn r =>
    rw [navbar_shape]
    have h0 : Moves msoStep [] ["td", "tr"] [o "tr", o "td"] := movesM_of_closed mso_framed 0 0 _ _ _ (by rfl)
    have h1 := movesM_base (hamburger_part msoStep hc hb) ["td", "tr"]
    have h2 : Moves msoStep ["td", "tr"] ["td", "tr", "table", "div", "td", "tr"] [o "div", .co, o "table", o "tr", o "td", .cc] :=
      movesM_of_closed mso_framed 0 0 _ _ _ (by rfl)
    have h3 := movesM_base (navLink_moves hc cn) ["td", "tr", "table", "div", "td", "tr"]
    have h4 := movesM_lift (navLoop_moves hc r) ["tr", "table", "div", "td", "tr"]
    have h5 : Moves msoStep ["td", "tr", "table", "div", "td", "tr"] [] [.co, c "td", c "tr", c "table", .cc, c "div", c "td", c "tr"] :=
      movesM_of_closed mso_framed 0 0 _ _ _ (by rfl)
    exact movesM_append h0 (movesM_append h1 (movesM_append h2 (movesM_append h3 (movesM_append h4 h5))))

theorem navbar_vis (hb : Bool) (links : List Bool) : Moves visStep [] [] (navbarToks hb links) := by
  have hc : IsChecker visStep := Or.inr (Or.inr rfl)
  cases links with
  | nil => cases hb <;> exact movesM_of_closed vis_framed 0 0 [] [] _ (by rfl)
  | cons cn r =>
    rw [navbar_shape]
    have h0 : Moves visStep [] [] [o "tr", o "td"] := movesM_of_closed vis_framed 0 0 _ _ _ (by rfl)
    have h1 := hamburger_part visStep hc hb
    have h2 : Moves visStep [] [] [o "div", .co, o "table", o "tr", o "td", .cc] := movesM_of_closed vis_framed 0 0 _ _ _ (by rfl)
    have h3 := navLink_moves hc cn
    have h5 : Moves visStep [] [] [.co, c "td", c "tr", c "table", .cc, c "div", c "td", c "tr"] :=
      movesM_of_closed vis_framed 0 0 _ _ _ (by rfl)
    exact movesM_append h0 (movesM_append h1 (movesM_append h2 (movesM_append h3 (movesM_append (navLoop_flat (Or.inr (Or.inr rfl)) vis_framed (by rfl) r) h5))))

theorem navbar_inert (hb : Bool) (links : List Bool) : Inert (navbarToks hb links) :=
  ⟨inert_of_moves (navbar_std hb links), inert_of_moves (navbar_mso hb links), inert_of_moves (navbar_vis hb links)⟩

/-! ### mj-accordion -/

section
variable {step : VS → GTok → Except String VS}

theorem accEl_moves (hc : IsChecker step) (e : AccEl) : Moves step [] [] (accElToks e) := by
  obtain ⟨ti, tx, il⟩ := e
  rcases ti with _ | ⟨_ | _⟩ <;> rcases tx with _ | ⟨_ | _⟩ <;> cases il <;>
    exact movesM_closed3 hc 0 0 [] [] _ (by rfl) (by rfl) (by rfl)

theorem accordion_moves (hc : IsChecker step) (els : List AccEl) : Moves step [] [] (accordionToks els) := by
  unfold accordionToks
  exact sandwich3 hc _ _ _ ["tbody", "table", "td", "tr"] ["tbody", "table", "td", "tr"] (by rfl) (by rfl) (by rfl) (by rfl) (by rfl) (by rfl)
    (movesM_flatMap 0 [] accElToks els (fun e _ => accEl_moves hc e))

/-! ### mj-carousel: everything but the Outlook fall-back sits inside ONE not-Outlook block (mode 2) -/

theorem carImage_in (hc : IsChecker step) (m : Nat) (hm : m = 2 ∨ m = 1) (h : Bool) : MovesM step m [] m [] (carImage h) := by
  rcases hm with rfl | rfl <;> cases h <;> exact movesM_closed3 hc _ _ [] [] _ (by rfl) (by rfl) (by rfl)

theorem carousel_moves (hc : IsChecker step) (th f : Bool) (r : List Bool) : Moves step [] [] (carouselToks th f r) := by
  unfold carouselToks
  simp only
  -- the stack inside the not-Outlook block differs per checker (Outlook skips it): go through it checker by checker
  have inputs : MovesM step 2 [] 2 [] (List.replicate (f :: r).length [v "input"]).flatten :=
    movesM_replicate 2 [] _ _ (movesM_closed3 hc 2 2 [] [] _ (by rfl) (by rfl) (by rfl))
  have thumbs : MovesM step 2 [] 2 [] (ite' th (List.replicate (f :: r).length carThumb).flatten) := by
    cases th
    · exact movesM_nil _ _ _
    · exact movesM_replicate 2 [] _ _ (movesM_closed3 hc 2 2 [] [] _ (by rfl) (by rfl) (by rfl))
  have icons : MovesM step 2 [] 2 [] (List.replicate (f :: r).length carIcon).flatten :=
    movesM_replicate 2 [] _ _ (movesM_closed3 hc 2 2 [] [] _ (by rfl) (by rfl) (by rfl))
  have imgs : MovesM step 2 [] 2 [] ((f :: r).flatMap carImage) :=
    movesM_flatMap 2 [] carImage _ (fun h _ => carImage_in hc 2 (Or.inl rfl) h)
  rcases hc with rfl | rfl | rfl
  · -- standard clients: the not-Outlook block is live markup
    have p1 : MovesM stdStep 0 [] 2 ["div", "td", "tr"] [o "tr", o "td", .nco, o "div"] := movesM_of_closed std_framed _ _ _ _ _ (by rfl)
    have p2 : MovesM stdStep 2 ["div", "td", "tr"] 2 ["div", "div", "td", "tr"] [o "div"] := movesM_of_closed std_framed _ _ _ _ _ (by rfl)
    have p3 : MovesM stdStep 2 ["div", "div", "td", "tr"] 2 ["div", "td", "tr", "tbody", "table", "div", "div", "td", "tr"]
        [o "table", o "tbody", o "tr", o "td", o "div"] := movesM_of_closed std_framed _ _ _ _ _ (by rfl)
    have p4 : MovesM stdStep 2 ["div", "td", "tr", "tbody", "table", "div", "div", "td", "tr"] 2 ["tr", "tbody", "table", "div", "div", "td", "tr"]
        [c "div", c "td"] := movesM_of_closed std_framed _ _ _ _ _ (by rfl)
    have p5 : MovesM stdStep 2 ["tr", "tbody", "table", "div", "div", "td", "tr"] 2 ["div", "td", "tr", "tbody", "table", "div", "div", "td", "tr"]
        [o "td", o "div"] := movesM_of_closed std_framed _ _ _ _ _ (by rfl)
    have p6 : MovesM stdStep 2 ["tr", "tbody", "table", "div", "div", "td", "tr"] 0 ["td", "tr"]
        [c "tr", c "tbody", c "table", c "div", c "div", .ncc] := movesM_of_closed std_framed _ _ _ _ _ (by rfl)
    have fb : MovesM stdStep 0 ["td", "tr"] 0 [] ([.co] ++ carImage f ++ [.cc, c "td", c "tr"]) := by
      cases f <;> exact movesM_of_closed std_framed _ _ _ _ _ (by rfl)
    have := movesM_append p1 (movesM_append (movesM_base inputs _) (movesM_append p2 (movesM_append (movesM_base thumbs _)
      (movesM_append p3 (movesM_append (movesM_base icons _) (movesM_append p4 (movesM_append p5 (movesM_append (movesM_base imgs _)
      (movesM_append p4 (movesM_append p5 (movesM_append (movesM_base icons _) (movesM_append p4 (movesM_append p6 fb)))))))))))))
    simpa [List.append_assoc] using this
  · -- Outlook: the not-Outlook block is skipped altogether; only the fall-back image counts
    have p1 : MovesM msoStep 0 [] 2 ["td", "tr"] [o "tr", o "td", .nco, o "div"] := movesM_of_closed mso_framed _ _ _ _ _ (by rfl)
    have p2 : MovesM msoStep 2 ["td", "tr"] 2 ["td", "tr"] [o "div"] := movesM_of_closed mso_framed _ _ _ _ _ (by rfl)
    have p3 : MovesM msoStep 2 ["td", "tr"] 2 ["td", "tr"] [o "table", o "tbody", o "tr", o "td", o "div"] :=
      movesM_of_closed mso_framed _ _ _ _ _ (by rfl)
    have p4 : MovesM msoStep 2 ["td", "tr"] 2 ["td", "tr"] [c "div", c "td"] := movesM_of_closed mso_framed _ _ _ _ _ (by rfl)
    have p5 : MovesM msoStep 2 ["td", "tr"] 2 ["td", "tr"] [o "td", o "div"] := movesM_of_closed mso_framed _ _ _ _ _ (by rfl)
    have p6 : MovesM msoStep 2 ["td", "tr"] 0 ["td", "tr"] [c "tr", c "tbody", c "table", c "div", c "div", .ncc] :=
      movesM_of_closed mso_framed _ _ _ _ _ (by rfl)
    have fb : MovesM msoStep 0 ["td", "tr"] 0 [] ([.co] ++ carImage f ++ [.cc, c "td", c "tr"]) := by
      cases f <;> exact movesM_of_closed mso_framed _ _ _ _ _ (by rfl)
    have := movesM_append p1 (movesM_append (movesM_base inputs _) (movesM_append p2 (movesM_append (movesM_base thumbs _)
      (movesM_append p3 (movesM_append (movesM_base icons _) (movesM_append p4 (movesM_append p5 (movesM_append (movesM_base imgs _)
      (movesM_append p4 (movesM_append p5 (movesM_append (movesM_base icons _) (movesM_append p4 (movesM_append p6 fb)))))))))))))
    simpa [List.append_assoc] using this
  · -- visibility: no stack at all
    have p1 : MovesM visStep 0 [] 2 [] [o "tr", o "td", .nco, o "div"] := movesM_of_closed vis_framed _ _ _ _ _ (by rfl)
    have p2 : MovesM visStep 2 [] 2 [] [o "div"] := movesM_of_closed vis_framed _ _ _ _ _ (by rfl)
    have p3 : MovesM visStep 2 [] 2 [] [o "table", o "tbody", o "tr", o "td", o "div"] := movesM_of_closed vis_framed _ _ _ _ _ (by rfl)
    have p4 : MovesM visStep 2 [] 2 [] [c "div", c "td"] := movesM_of_closed vis_framed _ _ _ _ _ (by rfl)
    have p5 : MovesM visStep 2 [] 2 [] [o "td", o "div"] := movesM_of_closed vis_framed _ _ _ _ _ (by rfl)
    have p6 : MovesM visStep 2 [] 0 [] [c "tr", c "tbody", c "table", c "div", c "div", .ncc] := movesM_of_closed vis_framed _ _ _ _ _ (by rfl)
    have fb : MovesM visStep 0 [] 0 [] ([.co] ++ carImage f ++ [.cc, c "td", c "tr"]) := by
      cases f <;> exact movesM_of_closed vis_framed _ _ _ _ _ (by rfl)
    have := movesM_append p1 (movesM_append inputs (movesM_append p2 (movesM_append thumbs
      (movesM_append p3 (movesM_append icons (movesM_append p4 (movesM_append p5 (movesM_append imgs
      (movesM_append p4 (movesM_append p5 (movesM_append icons (movesM_append p4 (movesM_append p6 fb)))))))))))))
    simpa [List.append_assoc] using this

end

/-! ### every leaf -/

theorem leaf_moves (step) (hc : IsChecker step) : ∀ l : LeafM, Moves step [] [] l.toks
  | .keep => movesM_closed3 hc 0 0 [] [] _ (by rfl) (by rfl) (by rfl)
  | .text cn => text_moves hc cn
  | .button h cn => button_moves hc h cn
  | .image h => image_moves hc h
  | .divider => divider_moves hc
  | .spacer => spacer_moves hc
  | .table r tx => table_moves hc r tx
  | .social vm els => by
    rcases hc with rfl | rfl | rfl
    · exact social_std vm els
    · exact social_mso vm els
    · exact social_vis vm els
  | .navbar hb ls => by
    rcases hc with rfl | rfl | rfl
    · exact navbar_std hb ls
    · exact navbar_mso hb ls
    · exact navbar_vis hb ls
  | .accordion els => accordion_moves hc els
  | .carousel th f r => carousel_moves hc th f r

/-- **every content component is inert** for standard clients, for Outlook and for the visibility check — for all parameter
    values and any number of children -/
theorem leaf_inert (l : LeafM) : Inert l.toks := inert_of_checkers (fun step hc => leaf_moves step hc l)

end Gomjml.Leaves

/-! ### content accounting: a leaf contains exactly its author-content slots -/
namespace Gomjml.Leaves
open Gomjml.Spec

@[simp] theorem cntT_cons_o (b : Bool) (n : String) (r : List GTok) : cntT (.o b n :: r) = cntT r := by simp [cntT]
@[simp] theorem cntT_cons_c (b : Bool) (n : String) (r : List GTok) : cntT (.c b n :: r) = cntT r := by simp [cntT]
@[simp] theorem cntT_cons_v (b : Bool) (n : String) (r : List GTok) : cntT (.v b n :: r) = cntT r := by simp [cntT]
@[simp] theorem cntT_cons_co (r : List GTok) : cntT (.co :: r) = cntT r := by simp [cntT]
@[simp] theorem cntT_cons_cc (r : List GTok) : cntT (.cc :: r) = cntT r := by simp [cntT]
@[simp] theorem cntT_cons_nco (r : List GTok) : cntT (.nco :: r) = cntT r := by simp [cntT]
@[simp] theorem cntT_cons_ncc (r : List GTok) : cntT (.ncc :: r) = cntT r := by simp [cntT]
@[simp] theorem cntT_cons_t (s : String) (r : List GTok) : cntT (.t s :: r) = cntT r + 1 := by simp [cntT]

theorem cntT_replicate (xs : List GTok) (n : Nat) : cntT (List.replicate n xs).flatten = n * cntT xs := by
  induction n with
  | zero => simp
  | succ k ih => simp [List.replicate_succ, ih, Nat.succ_mul, Nat.add_comm]

theorem cntT_flatMap {α} (f : α → List GTok) (g : α → Nat) (l : List α) (h : ∀ a, cntT (f a) = g a) :
    cntT (l.flatMap f) = (l.map g).sum := by
  induction l with
  | nil => rfl
  | cons a r ih => simp [List.flatMap_cons, h, ih]

theorem cnt_socElH (e : SocEl) : cntT (socElH e) = e.slots := by
  obtain ⟨ic, h, tx⟩ := e; cases ic <;> cases h <;> cases tx <;> rfl
theorem cnt_socElV (e : SocEl) : cntT (socElV e) = e.slots := by
  obtain ⟨ic, h, tx⟩ := e; cases ic <;> cases h <;> cases tx <;> rfl
theorem cnt_socLoop : ∀ els : List SocEl, cntT (socLoop els) = (els.map SocEl.slots).sum
  | [] => rfl
  | [e] => by simp [socLoop, cnt_socElH]
  | e :: e' :: r => by
    have ih := cnt_socLoop (e' :: r)
    simp only [socLoop, cntT_append, cnt_socElH, ih]
    simp [c, o]
theorem cnt_navLoop : ∀ (first : Bool) (ls : List Bool), cntT (navLoop first ls) = (ls.map b2n).sum
  | _, [] => rfl
  | first, cn :: r => by
    have ih := cnt_navLoop false r
    simp only [navLoop, cntT_append, ih]
    cases first <;> cases cn <;> simp [o, c, t, ite', b2n] <;> omega
theorem cnt_accEl (e : AccEl) : cntT (accElToks e) = e.slots := by
  obtain ⟨ti, tx, il⟩ := e
  rcases ti with _ | ⟨_ | _⟩ <;> rcases tx with _ | ⟨_ | _⟩ <;> cases il <;> rfl
theorem cnt_carImage (h : Bool) : cntT (carImage h) = 0 := by cases h <;> rfl

/-- **a content component contains exactly its author-content slots**: nothing the author wrote inside it is dropped or
    written twice — for all parameter values and any number of children -/
theorem leaf_count : ∀ l : LeafM, cntT l.toks = l.slots
  | .keep => rfl
  | .text cn => by cases cn <;> rfl
  | .button h cn => by cases h <;> cases cn <;> rfl
  | .image h => by cases h <;> rfl
  | .divider => rfl
  | .spacer => rfl
  | .table r tx => by
    simp only [LeafM.toks, tableToks, LeafM.slots, cntT_append]
    split
    · cases tx <;> simp [o, c, t, ite', b2n]
    · rw [cntT_replicate]; simp [tableRow, o, c, t]
  | .social vm els => by
    simp only [LeafM.toks, socialToks, LeafM.slots]
    cases vm
    · cases els with
      | nil => rfl
      | cons e r =>
        simp only [Bool.false_eq_true, if_false, List.isEmpty_cons, cntT_append, cnt_socLoop]
        simp [o, c]
    · simp only [if_true, cntT_append, cntT_flatMap socElV SocEl.slots els cnt_socElV]
      simp [o, c]
  | .navbar hb ls => by
    simp only [LeafM.toks, navbarToks, LeafM.slots, cntT_append, cnt_navLoop]
    cases hb <;> cases ls <;> simp [o, c, v, fill, ite']
  | .accordion els => by
    simp only [LeafM.toks, accordionToks, LeafM.slots, cntT_append, cntT_flatMap accElToks AccEl.slots els cnt_accEl]
    simp [o, c]
  | .carousel th f r => by
    simp only [LeafM.toks, carouselToks, LeafM.slots, cntT_append, cntT_replicate,
      cntT_flatMap carImage (fun _ => 0) (f :: r) cnt_carImage, cnt_carImage]
    have hz : ∀ l : List Bool, (l.map (fun _ => 0)).sum = 0 := by intro l; induction l <;> simp_all
    cases th <;> simp [o, c, v, ite', carThumb, carIcon, cntT_replicate, hz]

end Gomjml.Leaves
