import Gomjml.Props.C13
#print axioms Gomjml.Props.C13.C13_transparent_from_start
#print axioms Gomjml.Props.C13.C13_transparent_inv
#print axioms Gomjml.Props.C13.C13_failed_parse_not_cached
#print axioms Gomjml.Props.C13.C13_store_sound
#print axioms Gomjml.Props.C13.C13_store_sites
#print axioms Gomjml.Props.C13.C13_concurrent
#print axioms Gomjml.Props.C13.C13_concurrent_store_sound
#print axioms Gomjml.Props.C13.C13_key_is_the_template
