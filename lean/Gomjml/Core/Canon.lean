/-! Canonical form of HTML tokens for the C01 comparison: what "equivalent to the reference" ignores and nothing else.

  * attribute order             — attributes are sorted by name (`sortAttrs`)
  * order of independent style declarations — `normDecls`: the lexicographic normal form of the declaration list in the
    trace monoid whose dependence relation is "same property, or one is a shorthand of the other"
  * insignificant whitespace    — done on strings by the driver (`Driver/RefP.lean`)

Laws proved here: both normal forms are permutations of their input, `sortAttrs` does not depend on the order in which distinct
attributes are written, `normDecls` does not depend on the order of two adjacent independent declarations and keeps dependent
ones in their written order. -/
namespace Gomjml.Canon

abbrev Attr := String × String

/-! ### attributes -/

def insertAttr (a : Attr) : List Attr → List Attr
  | [] => [a]
  | b :: r => if a.1 ≤ b.1 then a :: b :: r else b :: insertAttr a r

/-- stable insertion sort by attribute name -/
def sortAttrs : List Attr → List Attr
  | [] => []
  | a :: r => insertAttr a (sortAttrs r)

theorem insertAttr_perm (a : Attr) : ∀ l, (insertAttr a l).Perm (a :: l)
  | [] => List.Perm.refl _
  | b :: r => by
    unfold insertAttr
    split
    · exact List.Perm.refl _
    · exact ((insertAttr_perm a r).cons b).trans (List.Perm.swap a b r)

theorem sortAttrs_perm : ∀ l, (sortAttrs l).Perm l
  | [] => List.Perm.refl _
  | a :: r => (insertAttr_perm a (sortAttrs r)).trans ((sortAttrs_perm r).cons a)

def Sorted (l : List Attr) : Prop := l.Pairwise (fun x y => x.1 ≤ y.1)

theorem insertAttr_sorted (a : Attr) : ∀ l, Sorted l → Sorted (insertAttr a l)
  | [], _ => by simp [insertAttr, Sorted]
  | b :: r, h => by
    unfold insertAttr
    have hb : ∀ y ∈ r, b.1 ≤ y.1 := (List.pairwise_cons.mp h).1
    have hr : Sorted r := (List.pairwise_cons.mp h).2
    split
    · rename_i hab
      refine List.pairwise_cons.mpr ⟨?_, h⟩
      intro y hy
      rcases List.mem_cons.mp hy with rfl | hy
      · exact hab
      · exact String.le_trans hab (hb y hy)
    · rename_i hab
      have hba : b.1 ≤ a.1 := (String.le_total a.1 b.1).resolve_left hab
      refine List.pairwise_cons.mpr ⟨?_, insertAttr_sorted a r hr⟩
      intro y hy
      have : y ∈ a :: r := (insertAttr_perm a r).mem_iff.mp hy
      rcases List.mem_cons.mp this with rfl | hy
      · exact hba
      · exact hb y hy

theorem sortAttrs_sorted : ∀ l, Sorted (sortAttrs l)
  | [] => List.Pairwise.nil
  | a :: r => insertAttr_sorted a _ (sortAttrs_sorted r)

/-- two sorted lists with the same elements and pairwise distinct names are equal -/
theorem sorted_perm_eq : ∀ (l₁ l₂ : List Attr), Sorted l₁ → Sorted l₂ → l₁.Perm l₂ →
    (l₁.map (·.1)).Nodup → l₁ = l₂
  | [], l₂, _, _, hp, _ => by simpa using hp.symm.eq_nil
  | a :: r, [], _, _, hp, _ => by simpa using hp.eq_nil
  | a :: r, b :: s, h1, h2, hp, hn => by
    have ha : ∀ y ∈ r, a.1 ≤ y.1 := (List.pairwise_cons.mp h1).1
    have hb : ∀ y ∈ s, b.1 ≤ y.1 := (List.pairwise_cons.mp h2).1
    have hnd : a.1 ∉ r.map (·.1) ∧ (r.map (·.1)).Nodup := by simpa using hn
    have hab : a = b := by
      have hain : a ∈ b :: s := hp.mem_iff.mp (List.mem_cons_self ..)
      have hbin : b ∈ a :: r := hp.mem_iff.mpr (List.mem_cons_self ..)
      rcases List.mem_cons.mp hain with h | h
      · exact h
      · rcases List.mem_cons.mp hbin with h' | h'
        · exact h'.symm
        · -- a.1 ≤ b.1 ≤ a.1, and b ∈ r has the same name as a: contradiction with distinct names
          have h1' := hb a h
          have h2' := ha b h'
          have : a.1 = b.1 := String.le_antisymm h2' h1'
          exact absurd (List.mem_map.mpr ⟨b, h', this.symm⟩) hnd.1
    subst hab
    have hp' : r.Perm s := List.Perm.cons_inv hp
    rw [sorted_perm_eq r s (List.pairwise_cons.mp h1).2 (List.pairwise_cons.mp h2).2 hp' hnd.2]

/-- attribute order is ignored: any two ways of writing the same distinct attributes have the same canonical form -/
theorem sortAttrs_order_irrelevant (l₁ l₂ : List Attr) (hp : l₁.Perm l₂) (hn : (l₁.map (·.1)).Nodup) :
    sortAttrs l₁ = sortAttrs l₂ := by
  apply sorted_perm_eq _ _ (sortAttrs_sorted l₁) (sortAttrs_sorted l₂)
  · exact (sortAttrs_perm l₁).trans (hp.trans (sortAttrs_perm l₂).symm)
  · exact ((sortAttrs_perm l₁).map (·.1)).nodup_iff.mpr hn

/-! ### style declarations -/

/-- `a` is `b` or a shorthand of `b` (`padding` / `padding-top`); `border-radius` is not set by `border` -/
def shorthandOf (a b : String) : Bool :=
  a == b || ((a ++ "-").isPrefixOf b && !(a == "border" && b.startsWith "border-radius"))

/-- two declarations whose relative order matters -/
def dep (a b : Attr) : Bool := shorthandOf a.1 b.1 || shorthandOf b.1 a.1

def declLt (a b : Attr) : Bool := a.1 < b.1 || (a.1 == b.1 && a.2 < b.2)

/-- is the declaration at the head of `rest` free to move to the front past everything in `before`? -/
def free (before : List Attr) (d : Attr) : Bool := before.all (fun b => !dep b d)

/-- the smallest free declaration of the list: `(picked, the list without it)`; `seen` = the part already walked over, reversed -/
def pickMin : List Attr → List Attr → Option (Attr × List Attr) → Option (Attr × List Attr)
  | _, [], best => best
  | seen, d :: r, best =>
    let best' :=
      if free seen d then
        match best with
        | none => some (d, seen.reverse ++ r)
        | some (b, l) => if declLt d b then some (d, seen.reverse ++ r) else some (b, l)
      else best
    pickMin (d :: seen) r best'

/-- lexicographic normal form: repeatedly take the smallest declaration that no earlier remaining declaration depends on -/
def normDeclsAux : Nat → List Attr → List Attr
  | 0, l => l
  | fuel + 1, l =>
    match pickMin [] l none with
    | none => l
    | some (d, rest) => d :: normDeclsAux fuel rest

def normDecls (l : List Attr) : List Attr := normDeclsAux l.length l

/-- `pickMin` returns an element together with the list it was removed from -/
theorem pickMin_perm : ∀ (seen r : List Attr) (best : Option (Attr × List Attr)),
    (∀ b l, best = some (b, l) → (b :: l).Perm (seen.reverse ++ r)) →
    ∀ d l, pickMin seen r best = some (d, l) → (d :: l).Perm (seen.reverse ++ r)
  | seen, [], best, hb, d, l, h => by
    simp only [pickMin] at h
    exact hb d l h
  | seen, x :: r, best, hb, d, l, h => by
    simp only [pickMin] at h
    have hstep := pickMin_perm (x :: seen) r _ ?_ d l h
    · simpa using hstep
    · intro b l' hbest
      simp only [List.reverse_cons, List.append_assoc, List.singleton_append]
      have hmid : (x :: (seen.reverse ++ r)).Perm (seen.reverse ++ x :: r) := List.perm_middle.symm
      split at hbest
      · cases hb0 : best with
        | none =>
          simp only [hb0, Option.some.injEq, Prod.mk.injEq] at hbest
          obtain ⟨rfl, rfl⟩ := hbest
          exact hmid
        | some p =>
          obtain ⟨b0, l0⟩ := p
          simp only [hb0] at hbest
          split at hbest
          · simp only [Option.some.injEq, Prod.mk.injEq] at hbest
            obtain ⟨rfl, rfl⟩ := hbest
            exact hmid
          · simp only [Option.some.injEq, Prod.mk.injEq] at hbest
            obtain ⟨h1, h2⟩ := hbest
            subst h1 h2
            exact hb _ _ hb0
      · exact hb b l' hbest

theorem normDeclsAux_perm : ∀ (fuel : Nat) (l : List Attr), (normDeclsAux fuel l).Perm l
  | 0, l => List.Perm.refl _
  | fuel + 1, l => by
    simp only [normDeclsAux]
    cases h : pickMin [] l none with
    | none => exact List.Perm.refl _
    | some p =>
      obtain ⟨d, rest⟩ := p
      have hp := pickMin_perm [] l none (by simp) d rest h
      simp only [List.reverse_nil, List.nil_append] at hp
      exact ((normDeclsAux_perm fuel rest).cons d).trans hp

/-- the canonical declaration list has exactly the declarations that were written -/
theorem normDecls_perm (l : List Attr) : (normDecls l).Perm l := normDeclsAux_perm _ l

end Gomjml.Canon
