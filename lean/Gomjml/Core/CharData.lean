import Gomjml.Core.Amp
/-! # C04 / C18 — character data written back as HTML character data (`parser.EscapeCharData`)

What the XML layer decoded (the author's `&lt;b&gt;`, `&amp;nbsp;`, a CDATA section) is escaped again on the way out.  `unescape` is
what a client does with it: one left-to-right pass that decodes the three references.  Tied to the implementation by running
both on the same strings (driver `cdata`). -/
namespace Gomjml.CharData
open Gomjml.Amp

def eAmp : List B := [38, 97, 109, 112, 59]   -- "&amp;"
def eLt : List B := [38, 108, 116, 59]        -- "&lt;"
def eGt : List B := [38, 103, 116, 59]        -- "&gt;"

def escB (b : B) : List B := if b == 38 then eAmp else if b == 60 then eLt else if b == 62 then eGt else [b]

/-- `EscapeCharData` -/
def escape (s : List B) : List B := s.flatMap escB

/-- a client's decoding of the three references, one pass -/
def unescape : Nat → List B → List B
  | 0, s => s
  | _, [] => []
  | fuel + 1, b :: r =>
    if eAmp.isPrefixOf (b :: r) then 38 :: unescape fuel ((b :: r).drop 5)
    else if eLt.isPrefixOf (b :: r) then 60 :: unescape fuel ((b :: r).drop 4)
    else if eGt.isPrefixOf (b :: r) then 62 :: unescape fuel ((b :: r).drop 4)
    else b :: unescape fuel r

/-- **what the author wrote is what the client shows**: decoding the escaped text once gives the text back, whatever it
    contains — markup characters, text that itself looks like a reference (`&lt;`, `&nbsp;`, `&#60;`) -/
theorem unescape_escape : ∀ (s : List B) (fuel : Nat), s.length ≤ fuel → unescape fuel (escape s) = s
  | [], fuel, _ => by cases fuel <;> simp [escape, unescape]
  | b :: r, 0, h => by simp at h
  | b :: r, fuel + 1, h => by
    have ih := unescape_escape r fuel (by simpa using h)
    unfold escape at ih ⊢
    simp only [List.flatMap_cons]
    by_cases h1 : b = 38
    · subst h1
      rw [show escB 38 = [38, 97, 109, 112, 59] from rfl]
      show unescape (fuel + 1) (38 :: 97 :: 109 :: 112 :: 59 :: List.flatMap escB r) = _
      rw [unescape]
      simp [eAmp, List.isPrefixOf, ih]
    · by_cases h2 : b = 60
      · subst h2
        rw [show escB 60 = [38, 108, 116, 59] from rfl]
        show unescape (fuel + 1) (38 :: 108 :: 116 :: 59 :: List.flatMap escB r) = _
        rw [unescape]
        simp [eAmp, eLt, List.isPrefixOf, ih]
      · by_cases h3 : b = 62
        · subst h3
          rw [show escB 62 = [38, 103, 116, 59] from rfl]
          show unescape (fuel + 1) (38 :: 103 :: 116 :: 59 :: List.flatMap escB r) = _
          rw [unescape]
          simp [eAmp, eLt, eGt, List.isPrefixOf, ih]
        · have hesc : escB b = [b] := by simp [escB, h1, h2, h3]
          rw [hesc]
          show unescape (fuel + 1) (b :: List.flatMap escB r) = _
          rw [unescape]
          have hne : (38 : B) ≠ b := fun h => h1 h.symm
          have n1 : eAmp.isPrefixOf (b :: List.flatMap escB r) = false := by
            simp only [eAmp, List.isPrefixOf]; simp [hne]
          have n2 : eLt.isPrefixOf (b :: List.flatMap escB r) = false := by
            simp only [eLt, List.isPrefixOf]; simp [hne]
          have n3 : eGt.isPrefixOf (b :: List.flatMap escB r) = false := by
            simp only [eGt, List.isPrefixOf]; simp [hne]
          simp only [n1, n2, n3, Bool.false_eq_true, if_false]
          rw [ih]

/-- **never markup**: the escaped text contains no `<` and no `>` -/
theorem escape_no_markup (s : List B) : ∀ b ∈ escape s, b ≠ 60 ∧ b ≠ 62 := by
  intro b hb
  unfold escape at hb
  rw [List.mem_flatMap] at hb
  obtain ⟨x, _, hx⟩ := hb
  unfold escB at hx
  split at hx
  · simp [eAmp] at hx; rcases hx with rfl | rfl | rfl | rfl | rfl <;> decide
  · split at hx
    · simp [eLt] at hx; rcases hx with rfl | rfl | rfl | rfl <;> decide
    · split at hx
      · simp [eGt] at hx; rcases hx with rfl | rfl | rfl | rfl <;> decide
      · rename_i h1 h2 h3
        simp at hx; subst hx
        exact ⟨by simpa using h2, by simpa using h3⟩

/-- text without markup characters passes unchanged (the fast path of the Go function) -/
theorem escape_plain (s : List B) (h : ∀ b ∈ s, b ≠ 38 ∧ b ≠ 60 ∧ b ≠ 62) : escape s = s := by
  induction s with
  | nil => rfl
  | cons b r ih =>
    have hb := h b (by simp)
    unfold escape at ih ⊢
    simp only [List.flatMap_cons]
    rw [ih (fun x hx => h x (by simp [hx]))]
    simp [escB, hb.1, hb.2.1, hb.2.2]

end Gomjml.CharData
